package mux

import (
	"fmt"
	"strings"
)

// PathCounter is implemented by the muxer when built with the verif tag (hook
// (*Muxer).VerifPathCount); nil when the hook is absent.
var PathCounter func(d *Driver) int

// checkRetention: bounded disk usage and URL table, expired URIs gone (C18).
func (e *e1) checkRetention(_ bool) {
	res := e.res
	cfg := e.cfg
	streams := cfg.Streams()
	bad := func(f string, a ...any) {
		e.viol("C18", "observation %d: %s", e.obsN, fmt.Sprintf(f, a...))
	}
	// disk files == listed non-gap segments + the open one, per stream
	if cfg.Disk {
		ents := e.drv.DirEntries()
		if len(ents) > (cfg.SegmentCount+1)*len(streams) {
			bad("%d files in Directory, bound is (SegmentCount+1) x streams = %d: %v", len(ents), (cfg.SegmentCount+1)*len(streams), ents)
			return
		}
		for _, name := range ents {
			m := segRe.FindStringSubmatch(name)
			if m == nil {
				bad("unexpected file %q in Directory", name)
				return
			}
			h := e.hist[m[2]]
			if h == nil || h.lastX == nil {
				continue
			}
			var n int64
			fmt.Sscanf(m[3], "%d", &n)
			first := *h.lastX.MediaSeq
			last := first + int64(len(h.lastX.Segments)) - 1
			if n < first || n > last+1 {
				bad("file %s is neither listed (msn %d..%d) nor the open segment", name, first, last)
				return
			}
		}
	}
	if PathCounter != nil {
		n := PathCounter(e.drv)
		if n > res.PathCountMax {
			res.PathCountMax = n
		}
		// index + per stream: playlist, init, SegmentCount segments, parts of the last SegmentCount
		// segments and of the open one, preload placeholder
		maxParts := res.MaxParts + 2
		bound := 1 + len(streams)*(2+cfg.SegmentCount+(cfg.SegmentCount+1)*maxParts+2)
		if n > bound {
			bad("URL table holds %d paths, bound for SegmentCount %d, %d streams and <= %d parts per segment is %d", n, cfg.SegmentCount, len(streams), maxParts, bound)
			return
		}
	}
	// part URIs of expired segments no longer resolve
	if cfg.Variant == VariantLL && e.prefix != "" {
		for _, s := range streams {
			h := e.hist[s]
			if h.lastX == nil {
				continue
			}
			first := *h.lastX.MediaSeq
			// parts recorded under a segment that has left the window
			for n, msn := range e.partSeg[s] {
				if msn < first && !e.partProbed[s][n] {
					if e.partProbed[s] == nil {
						e.partProbed[s] = map[uint64]bool{}
					}
					e.partProbed[s][n] = true
					u := fmt.Sprintf("%s_%s_part%d.mp4", e.prefix, s, n)
					r := e.drv.GetDirect(u)
					res.ExpiredProbed++
					if r.Status == 200 && len(r.Body) > 0 {
						e.viol("C05", "observation %d: part %s of expired segment %d still returns %d bytes (window starts at %d)", e.obsN, u, msn, len(r.Body), first)
						bad("part %s of expired segment %d still returns %d bytes (window starts at %d)", u, msn, len(r.Body), first)
						return
					}
					delete(e.partSeg[s], n)
				}
			}
		}
	}
	_ = strings.TrimSpace
}
