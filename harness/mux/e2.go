package mux

import (
	"bytes"
	"fmt"
	"math"
	"runtime"
	"strconv"
	"strings"
	"time"

	"verifharness/m3u8x"
)

// E2: Low-Latency stepping engine (C06). The writer only advances when every tracked request
// has either finished or is observed blocked inside the muxer (goroutine state, no timeouts).

// ReqSpec is one request of a C06 scenario; M and P are chosen relative to the playlist state
// at the moment the request is issued.
type ReqSpec struct {
	AtOp   int    `json:"at"`              // issue after this op
	Stream int    `json:"stream"`          // index into Config.Streams()
	Kind   string `json:"kind"`            // reload | hint | bad | oldhint
	M      string `json:"m,omitempty"`     // expired first mid last open next far
	P      string `json:"p,omitempty"`     // absent zero existing next beyond past
	PK     int    `json:"pk,omitempty"`    // offset used by "beyond"/"existing"
	Skip   string `json:"skip,omitempty"`  // "", YES, v2, NO
	Extra  string `json:"extra,omitempty"` // extra query, e.g. a=1
	Bad    string `json:"bad,omitempty"`   // raw query of a malformed request
}

// llState is the playlist state of one stream as observed through a plain request.
type llState struct {
	text     string
	x        *m3u8x.XMedia
	first    int64
	last     int64 // last complete msn
	nparts   map[int64]int
	open     int // parts of the open segment
	hint     string
	partURIs map[string]bool
}

func readLLState(text string) (*llState, error) {
	x, err := m3u8x.ParseMedia(text)
	if err != nil {
		return nil, err
	}
	if x.MediaSeq == nil || len(x.Segments) == 0 {
		return nil, fmt.Errorf("no segments")
	}
	st := &llState{text: text, x: x, first: *x.MediaSeq, nparts: map[int64]int{}, partURIs: map[string]bool{}}
	st.last = st.first + int64(len(x.Segments)) - 1
	for k, sg := range x.Segments {
		if len(sg.Parts) > 0 {
			st.nparts[st.first+int64(k)] = len(sg.Parts)
		}
		for _, p := range sg.Parts {
			b, _ := stripQuery(p.URI)
			st.partURIs[b] = true
		}
	}
	st.open = len(x.Parts)
	for _, p := range x.Parts {
		b, _ := stripQuery(p.URI)
		st.partURIs[b] = true
	}
	if x.Hint != nil {
		st.hint = x.Hint.URI
	}
	return st, nil
}

// verdicts of the availability oracle
const (
	vAvail  = "available"
	vWait   = "wait"
	vReject = "reject"
	vEither = "either" // boundary the statement does not decide (M == MEDIA-SEQUENCE)
)

// availability implements the statement of C06 on an observed state.
func availability(st *llState, m int64, hasP bool, p int64) string {
	L := st.last
	switch {
	case m > L+2:
		return vReject
	case m < st.first:
		return vReject
	case m == st.first:
		return vEither
	case m < L:
		return vAvail // complete; a part index past its end falls into M+1 <= L, complete as well
	case m == L:
		if !hasP {
			return vAvail
		}
		n, known := st.nparts[L]
		if !known {
			return vAvail
		}
		if p < int64(n) {
			return vAvail
		}
		// past the end of complete segment L: part 0 of L+1
		if st.open >= 1 {
			return vAvail
		}
		return vWait
	case m == L+1:
		if !hasP {
			return vWait // the complete segment M is needed
		}
		if p < int64(st.open) {
			return vAvail
		}
		return vWait
	default: // L+2
		return vWait
	}
}

// containsMP checks that a 200 response contains what was asked for.
func containsMP(body string, m int64, hasP bool, p int64) string {
	st, err := readLLState(body)
	if err != nil {
		return "response cannot be read: " + err.Error()
	}
	if m <= st.last {
		if m < st.first {
			return fmt.Sprintf("response starts at msn %d, after the requested %d", st.first, m)
		}
		if !hasP {
			return ""
		}
		n, known := st.nparts[m]
		if !known || p < int64(n) {
			return ""
		}
		// redirected to part 0 of m+1
		if m+1 <= st.last || st.open >= 1 {
			return ""
		}
		return fmt.Sprintf("asked for part %d of complete segment %d (which has %d parts): part 0 of segment %d is not in the response", p, m, n, m+1)
	}
	if m == st.last+1 {
		if !hasP {
			return fmt.Sprintf("asked for segment %d: the response's last complete segment is %d", m, st.last)
		}
		if p < int64(st.open) {
			return ""
		}
		return fmt.Sprintf("asked for part %d of segment %d: the response lists %d parts of it", p, m, st.open)
	}
	return fmt.Sprintf("asked for segment %d: the response's last complete segment is %d", m, st.last)
}

// deltaOf builds the delta update the statement prescribes from the full playlist text:
// the first k segments and the EXT-X-MAP replaced by one EXT-X-SKIP tag.
func deltaOf(full string, k int) string {
	lines := m3u8x.SplitLines(full)
	var out []string
	seen := 0
	inSkipped := false
	headerDone := false
	for _, l := range lines {
		if strings.HasPrefix(l, "#EXT-X-MAP:") {
			out = append(out, "#EXT-X-SKIP:SKIPPED-SEGMENTS="+strconv.Itoa(k))
			headerDone = true
			inSkipped = seen < k
			continue
		}
		if !headerDone {
			out = append(out, l)
			continue
		}
		if inSkipped {
			if l != "" && !strings.HasPrefix(l, "#") {
				seen++
				inSkipped = seen < k
			}
			continue
		}
		out = append(out, l)
	}
	return strings.Join(out, "\n") + "\n"
}

type pendingReq struct {
	spec        ReqSpec
	stream      string
	path        string
	m, p        int64
	hasP        bool
	delta       bool
	p0          *Pending
	issued      int
	hintURI     string
	blockedOnce bool
	pText       string // _HLS_part as sent when it does not fit p
	noMSN       bool   // plain request (no _HLS_msn): answered at once with the current playlist
}

// E2Result is the outcome of one C06 scenario.
type E2Result struct {
	Violations []Violation
	Skip       string
	Blocked    int // requests that blocked and were later released
	Immediate  int
	Rejected   int
	DeltaSkips int // delta responses with SKIPPED-SEGMENTS > 0
	Bursts     int
	// GrammarChecked counts playlist responses fed to the strict grammar (C15)
	GrammarChecked int
	Classes        map[string]int
	Excluded       int
}

func (r *E2Result) add(prop, f string, a ...any) {
	if len(r.Violations) < 6 {
		m := fmt.Sprintf(f, a...)
		if len(m) > 2500 {
			m = m[:2500] + "…"
		}
		r.Violations = append(r.Violations, Violation{Prop: prop, Msg: m})
	}
}

// Has returns the first violation of prop.
func (r *E2Result) Has(prop string) string {
	for _, v := range r.Violations {
		if v.Prop == prop {
			return v.Msg
		}
	}
	return ""
}

// RunC06 runs a Low-Latency script with tracked blocking requests.
// exclude lists request classes of open known findings that must not be issued.
func RunC06(sc Script, reqs []ReqSpec, bursts map[int]int, tmpBase string, exclude func(class string) bool) *E2Result {
	res := &E2Result{Classes: map[string]int{}}
	cfg := sc.Config
	if cfg.Variant != VariantLL {
		res.Skip = "not Low-Latency"
		return res
	}
	drv, err := NewDriver(cfg, tmpBase)
	if err != nil {
		res.Skip = "Start: " + err.Error()
		return res
	}
	defer drv.Close()
	streams := cfg.Streams()
	states := map[string]*llState{}
	var pend []*pendingReq

	probes := map[string]*Pending{} // one outstanding plain request per stream until content exists
	observe := func() bool {
		for _, s := range streams {
			var r Resp
			if states[s] != nil {
				r = drv.GetDirect(s + "_stream.m3u8")
			} else {
				if probes[s] == nil {
					probes[s] = drv.Go(s + "_stream.m3u8")
				}
				done, _ := probes[s].Settle(20 * time.Second)
				if !done {
					continue
				}
				r = probes[s].Resp()
				probes[s] = nil
			}
			if r.Panic != "" {
				res.add("C08", "panic serving playlist: %s", r.Panic)
				return false
			}
			if r.Status != 200 {
				res.add("C06", "plain playlist of %s answered %d", s, r.Status)
				return false
			}
			st, err := readLLState(string(r.Body))
			if err != nil {
				res.add("C15", "playlist of %s unreadable: %v", s, err)
				return false
			}
			if errs := m3u8x.Strict(string(r.Body)); len(errs) > 0 {
				res.add("C15", "playlist of %s does not parse under the strict grammar: %s\n%s", s, strings.Join(errs, "; "), r.Body)
			}
			res.GrammarChecked++
			states[s] = st
		}
		return true
	}

	// evaluate every pending request against the current state
	relaxed := false // after a burst of writes: the state at which a waiter ran is one of several
	evaluate := func(step int) bool {
		var keep []*pendingReq
		for _, pr := range pend {
			done, state := pr.p0.Settle(20 * time.Second)
			if !done && strings.HasPrefix(state, "unsettled") {
				res.Skip = "request goroutine did not settle: " + state
				return false
			}
			st := states[pr.stream]
			where := fmt.Sprintf("request %q issued after op %d, state after op %d (first %d, last complete %d, open parts %d)", pr.path, pr.issued, step, st.first, st.last, st.open)
			if pr.spec.Kind == "hint" || pr.spec.Kind == "oldhint" {
				b, _ := stripQuery(pr.hintURI)
				complete := st.partURIs[b] || pr.spec.Kind == "oldhint"
				if !complete {
					// a part that has left the last two segments is complete as well
					if n := partNumber(b); n >= 0 && st.hint != "" {
						hb, _ := stripQuery(st.hint)
						if hn := partNumber(hb); hn > n {
							complete = true
						}
					}
				}
				if done {
					r := pr.p0.Resp()
					if r.Panic != "" {
						res.add("C08", "%s: panic: %s", where, r.Panic)
						return false
					}
					if !complete {
						res.add("C06", "%s: preload hint answered (status %d, %d bytes) before the part is complete", where, r.Status, len(r.Body))
						return false
					}
					if r.Status != 200 {
						// the part may have expired meanwhile; only a complete *listed* part must be served
						if st.partURIs[b] {
							res.add("C06", "%s: preload hint answered status %d although the part is listed", where, r.Status)
							return false
						}
					} else {
						ref := drv.GetDirect(b)
						if ref.Status == 200 && !bytes.Equal(ref.Body, r.Body) {
							res.add("C06", "%s: preload hint returned %d bytes, the part URI returns %d different bytes", where, len(r.Body), len(ref.Body))
							return false
						}
					}
					if pr.blockedOnce {
						res.Blocked++
					} else {
						res.Immediate++
					}
					continue
				}
				if complete {
					res.add("C06", "%s: preload hint still blocked (%s) although the part is complete and listed", where, state)
					return false
				}
				pr.blockedOnce = true
				keep = append(keep, pr)
				continue
			}
			v := availability(st, pr.m, pr.hasP, pr.p)
			if pr.noMSN {
				v = vAvail
			}
			if done {
				r := pr.p0.Resp()
				if r.Panic != "" {
					res.add("C08", "%s: panic: %s", where, r.Panic)
					return false
				}
				switch {
				case r.Status == 400:
					if v == vAvail || v == vWait {
						res.add("C06", "%s: answered 400 although (%d,%v/%d) is %s", where, pr.m, pr.hasP, pr.p, v)
						return false
					}
					res.Rejected++
				case r.Status == 200:
					if v == vReject {
						res.add("C06", "%s: answered 200 although (%d) cannot be satisfied (must be 400)", where, pr.m)
						return false
					}
					if v == vWait {
						res.add("C06", "%s: answered before segment %d / part %d (present=%v) is published:\n%s", where, pr.m, pr.p, pr.hasP, r.Body)
						return false
					}
					body := string(r.Body)
					want := st.text
					if errs := m3u8x.Strict(body); len(errs) > 0 {
						res.add("C15", "%s: response does not parse under the strict grammar: %s\n%s", where, strings.Join(errs, "; "), body)
					}
					res.GrammarChecked++
					if pr.delta {
						x, err := m3u8x.ParseMedia(body)
						if err != nil || x.Skip == nil {
							res.add("C06", "%s: _HLS_skip response carries no EXT-X-SKIP:\n%s", where, body)
							return false
						}
						want = deltaOf(st.text, int(*x.Skip))
						if *x.Skip > 0 {
							res.DeltaSkips++
						}
						if int(*x.Skip) > len(st.x.Segments) {
							res.add("C06", "%s: SKIPPED-SEGMENTS=%d but the full playlist lists %d segments", where, *x.Skip, len(st.x.Segments))
							return false
						}
					}
					if pr.spec.Extra != "" {
						// listed URIs carry the non-_HLS_ part of the query: compare after removing it
						body = strings.ReplaceAll(body, "?"+pr.spec.Extra, "")
					}
					if strings.Contains(body, "_HLS_") {
						res.add("C06", "%s: response lists a URI with a _HLS_ directive:\n%s", where, body)
						return false
					}
					if body != want && !relaxed {
						res.add("C06", "%s: response is not the playlist of the state at which it was released\n--- response\n%s--- expected\n%s", where, body, want)
						return false
					}
					if v != vEither && !pr.noMSN {
						if m := containsMP(string(r.Body), pr.m, pr.hasP, pr.p); m != "" && !pr.delta {
							res.add("C06", "%s: %s", where, m)
							return false
						}
					}
					if pr.blockedOnce {
						res.Blocked++
					} else {
						res.Immediate++
					}
				default:
					res.add("C06", "%s: answered status %d", where, r.Status)
					return false
				}
				continue
			}
			// still blocked
			switch v {
			case vAvail:
				res.add("C06", "%s: still blocked (%s) although segment %d / part %d (present=%v) is published:\n%s", where, state, pr.m, pr.p, pr.hasP, st.text)
				return false
			case vReject:
				res.add("C06", "%s: blocked (%s) although it cannot be satisfied: must be rejected with 400 immediately", where, state)
				return false
			}
			pr.blockedOnce = true
			keep = append(keep, pr)
		}
		pend = keep
		return true
	}

	byOp := map[int][]ReqSpec{}
	for _, r := range reqs {
		byOp[r.AtOp] = append(byOp[r.AtOp], r)
	}
	burstEnd := -1
	prevProcs := 0
	defer func() {
		if prevProcs > 0 {
			runtime.GOMAXPROCS(prevProcs)
		}
	}()
	for i, op := range sc.Ops {
		if n, ok := bursts[i]; ok && burstEnd < 0 && n > 1 && len(states) == len(streams) {
			// a burst: several writes back to back on a single P, so that woken requests do not
			// get to run between the rotations
			burstEnd = i + n - 1
			prevProcs = runtime.GOMAXPROCS(1)
			res.Bursts++
		}
		if err := drv.Write(i, op); err != nil {
			res.Skip = "write failed: " + err.Error()
			break
		}
		relaxed = false
		if burstEnd >= 0 {
			if i < burstEnd && i < len(sc.Ops)-1 {
				continue
			}
			runtime.GOMAXPROCS(prevProcs)
			prevProcs = 0
			burstEnd = -1
			relaxed = true
		}
		if !observe() {
			return res
		}
		if len(states) == len(streams) {
			if !evaluate(i) {
				return res
			}
			for _, rs := range byOp[i] {
				s := streams[rs.Stream%len(streams)]
				st := states[s]
				pr := &pendingReq{spec: rs, stream: s, issued: i}
				switch rs.Kind {
				case "bad":
					r := drv.Get(s + "_stream.m3u8?" + rs.Bad)
					res.Classes["bad:"+rs.Bad]++
					if r.Status != 400 {
						res.add("C06", "malformed request %q answered status %d (blocked: %q), expected 400", rs.Bad, r.Status, r.BlockedOn)
						return res
					}
					res.Rejected++
					continue
				case "hint", "oldhint":
					if st.hint == "" {
						continue
					}
					pr.hintURI = st.hint
					if rs.Kind == "oldhint" {
						// a part that is already complete
						var any string
						for u := range st.partURIs {
							if any == "" || u < any {
								any = u
							}
						}
						if any == "" {
							continue
						}
						pr.hintURI = any
					}
					pr.path = pr.hintURI
					res.Classes["hint:"+rs.Kind]++
				default:
					switch rs.M {
					case "none":
						pr.noMSN = true
					case "expired":
						pr.m = st.first - 1
					case "first":
						pr.m = st.first
					case "mid":
						pr.m = st.first + 1 + int64(rs.PK)%maxI64(st.last-st.first, 1)
					case "last":
						pr.m = st.last
					case "open":
						pr.m = st.last + 1
					case "next":
						pr.m = st.last + 2
					case "far":
						pr.m = st.last + 3 + int64(rs.PK%3)
					}
					if pr.m < 0 {
						continue
					}
					n := int64(st.open)
					if k, ok := st.nparts[pr.m]; ok {
						n = int64(k)
					}
					switch rs.P {
					case "absent":
					case "zero":
						pr.hasP, pr.p = true, 0
					case "existing":
						if n == 0 {
							continue
						}
						pr.hasP, pr.p = true, int64(rs.PK)%n
					case "next":
						pr.hasP, pr.p = true, n
					case "beyond":
						pr.hasP, pr.p = true, n+1+int64(rs.PK%3)
					case "past":
						pr.hasP, pr.p = true, 9999
						// far past the end, up to the largest values the directive can carry
						switch rs.PK % 4 {
						case 1:
							pr.p = 1 << 62
						case 2:
							pr.p, pr.pText = math.MaxInt64, "9223372036854775808"
						case 3:
							pr.p, pr.pText = math.MaxInt64, "18446744073709551615"
						}
					}
					class := "M=" + rs.M + ",P=" + rs.P
					if int64(pr.m) < 7 && pr.m > st.first {
						class += ",gap"
					}
					if exclude != nil && exclude(class) {
						res.Excluded++
						continue
					}
					if !pr.noMSN {
						res.Classes[class]++
					}
					var qs []string
					if rs.Extra != "" {
						qs = append(qs, rs.Extra)
					}
					if pr.noMSN {
						pr.hasP = false
						res.Classes["M=none,skip="+rs.Skip]++
					} else {
						qs = append(qs, "_HLS_msn="+strconv.FormatInt(pr.m, 10))
					}
					if pr.hasP && pr.pText != "" {
						qs = append(qs, "_HLS_part="+pr.pText)
					} else if pr.hasP {
						qs = append(qs, "_HLS_part="+strconv.FormatInt(pr.p, 10))
					}
					if rs.Skip != "" {
						qs = append(qs, "_HLS_skip="+rs.Skip)
						pr.delta = rs.Skip == "YES" || rs.Skip == "v2"
					}
					pr.path = s + "_stream.m3u8"
					if len(qs) > 0 {
						pr.path += "?" + strings.Join(qs, "&")
					}
				}
				pr.p0 = drv.Go(pr.path)
				pend = append(pend, pr)
			}
			// classify the freshly issued requests against the current state right away
			if !evaluate(i) {
				return res
			}
		}
	}
	return res
}

func partNumber(base string) int64 {
	m := partRe.FindStringSubmatch(base)
	if m == nil {
		return -1
	}
	n, _ := strconv.ParseInt(m[3], 10, 64)
	return n
}
