package mux

import (
	"fmt"
	"os"
	"strconv"
	"strings"
	"sync"
	"time"
)

// SetYield installs the yield hook of the library (nil without the verif build tag).
var SetYield func(func(point string))

// PendSpec is a request that is pending when Close is called (C07).
type PendSpec struct {
	Kind   string `json:"kind"` // index | plain | reload-open | reload-next | reload-nextpart | hint
	Stream int    `json:"stream"`
}

// ClosePlan is the Close part of a C07 scenario.
type ClosePlan struct {
	CloseAfterOp int        `json:"close_after_op"` // -1: before any data
	Pending      []PendSpec `json:"pending"`
	PauseClose   bool       `json:"pause_close"` // park Close between its broadcast and the per-stream close; let the waiters run
	CloseTwice   bool       `json:"close_twice"`
	// BreakDir > 0 (Directory storage): the directory is deleted that many writes before the Close
	// point; the first Write that fails for it ends the writing, then Close is called as planned
	BreakDir int `json:"break_dir,omitempty"`
	// SlowHint (Low-Latency): a preload-hint request read by a slow client is issued before the
	// Close point; writing continues until the muxer starts sending it the part (its Write blocks),
	// and Close is called while that transfer is stuck
	SlowHint bool `json:"slow_hint,omitempty"`
}

// E2CloseResult is the outcome of one C07 scenario.
type E2CloseResult struct {
	Violations     []Violation
	Skip           string
	PendingAtClose int
	Kinds          map[string]int
	Paused         bool
	ClosedTwice    bool
	DirBroken      bool // the storage directory was deleted under the muxer
	WriteFailed    bool // a Write returned an error (deleted directory, unparsable parameters, ...)
	SlowTransfer   bool // Close was called while a slow client was stuck receiving a part
	WriteRejected  bool // a Write was rejected for SegmentMaxSize; Close was called right after
	// SecondClosePanicked: a repeated Close panicked (outside the statement; recorded as a label)
	SecondClosePanicked bool
}

func (r *E2CloseResult) add(f string, a ...any) {
	if len(r.Violations) < 6 {
		r.Violations = append(r.Violations, Violation{Prop: "C07", Msg: fmt.Sprintf(f, a...)})
	}
}

// RunC07 executes the script up to the Close point, issues the pending requests, closes the
// muxer (optionally under the close yield point) and checks the statement of C07.
func RunC07(sc Script, plan ClosePlan, tmpBase string) *E2CloseResult {
	res := &E2CloseResult{Kinds: map[string]int{}}
	cfg := sc.Config
	drv, err := NewDriver(cfg, tmpBase)
	if err != nil {
		res.Skip = "Start: " + err.Error()
		return res
	}
	cleaned := false
	cleanup := func() {
		if !cleaned {
			cleaned = true
			if drv.Dir != "" {
				os.RemoveAll(drv.Dir)
			}
		}
	}
	defer cleanup()
	closedOnce := false
	defer func() {
		if !closedOnce {
			drv.M.Close()
		}
	}()
	for i, op := range sc.Ops {
		if i > plan.CloseAfterOp {
			break
		}
		if plan.BreakDir > 0 && drv.Dir != "" && i == plan.CloseAfterOp-plan.BreakDir {
			os.RemoveAll(drv.Dir)
			res.DirBroken = true
		}
		if err := drv.Write(i, op); err != nil {
			if strings.Contains(err.Error(), "maximum segment size") {
				res.WriteRejected = true // SegmentMaxSize: the script ends here, Close follows
				break
			}
			if !strings.HasPrefix(err.Error(), "PANIC") {
				// a storage failure, an unparsable parameter set, a rejected time stamp: whatever made
				// the Write fail, Close must still do its job
				res.WriteFailed = true
				break
			}
			res.Skip = "write failed: " + err.Error()
			return res
		}
	}
	streams := cfg.Streams()
	// observe the state of every stream (tracked: may block before content)
	states := map[string]*llState{}
	var probes []*Pending
	observeStates := func() {
		for _, s := range streams {
			if states[s] == nil {
				already := false
				for _, p := range probes {
					if p.Path == s+"_stream.m3u8" {
						already = true
					}
				}
				if already {
					continue // one outstanding probe per stream
				}
			}
			p := drv.Go(s + "_stream.m3u8")
			if done, _ := p.Settle(20 * time.Second); done {
				if r := p.Resp(); r.Status == 200 {
					if st, err := readLLState(string(r.Body)); err == nil {
						states[s] = st
					}
				}
			} else {
				probes = append(probes, p) // stays pending: it is a "plain" request blocked before content
			}
		}
	}
	observeStates()
	// ---- a slow client in the middle of a part transfer ----
	if plan.SlowHint && cfg.Variant == VariantLL && !res.WriteFailed && !res.WriteRejected {
		lead := cfg.LeadingStream()
		if st := states[lead]; st != nil && st.hint != "" {
			sp, gate := drv.GoSlow(st.hint)
			defer gate.Release()
			for i := plan.CloseAfterOp + 1; i < len(sc.Ops) && i <= plan.CloseAfterOp+80; i++ {
				started := false
				select {
				case <-gate.Started:
					started = true
				default:
				}
				if started {
					break
				}
				werr := make(chan error, 1)
				go func(i int) { werr <- drv.Write(i, sc.Ops[i]) }(i)
				select {
				case err := <-werr:
					if err != nil {
						i = len(sc.Ops) // stop writing
					}
					sp.Settle(5 * time.Second) // the hint request is blocked again: still waiting, or in its Write
				case <-time.After(10 * time.Second):
					res.add("Write did not return within 10 s while a slow client was reading a part (op %d)", i)
					return res
				}
			}
			select {
			case <-gate.Started:
				res.SlowTransfer = true
			case <-time.After(300 * time.Millisecond):
			}
			_ = sp
			if res.SlowTransfer {
				observeStates() // the extra writes moved the streams on
			}
		}
	}

	type tracked struct {
		spec           PendSpec
		path           string
		p              *Pending
		blockedAtClose bool
	}
	var pend []*tracked
	for _, p := range probes {
		pend = append(pend, &tracked{spec: PendSpec{Kind: "plain"}, path: p.Path, p: p})
	}
	for _, ps := range plan.Pending {
		s := streams[ps.Stream%len(streams)]
		st := states[s]
		var path string
		switch ps.Kind {
		case "index":
			path = "index.m3u8"
		case "plain":
			path = s + "_stream.m3u8"
		case "reload-open", "reload-next", "reload-nextpart":
			if cfg.Variant != VariantLL || st == nil {
				continue
			}
			switch ps.Kind {
			case "reload-open":
				path = s + "_stream.m3u8?_HLS_msn=" + strconv.FormatInt(st.last+1, 10)
			case "reload-next":
				path = s + "_stream.m3u8?_HLS_msn=" + strconv.FormatInt(st.last+2, 10) + "&_HLS_part=0"
			default:
				path = s + "_stream.m3u8?_HLS_msn=" + strconv.FormatInt(st.last+1, 10) + "&_HLS_part=" + strconv.Itoa(st.open)
			}
		case "hint":
			if cfg.Variant != VariantLL || st == nil || st.hint == "" {
				continue
			}
			path = st.hint
		default:
			continue
		}
		pend = append(pend, &tracked{spec: ps, path: path, p: drv.Go(path)})
	}
	for _, t := range pend {
		done, state := t.p.Settle(20 * time.Second)
		if !done {
			if len(state) > 9 && state[:9] == "unsettled" {
				res.Skip = "request did not settle: " + state
				return res
			}
			t.blockedAtClose = true
			res.PendingAtClose++
			res.Kinds[t.spec.Kind]++
		}
	}

	// ---- Close ----
	var mu sync.Mutex
	reached := make(chan struct{}, 4)
	resume := make(chan struct{})
	paused := false
	if plan.PauseClose && SetYield != nil {
		SetYield(func(point string) {
			if point != "mux.close.afterBroadcast" {
				return
			}
			mu.Lock()
			first := !paused
			paused = true
			mu.Unlock()
			if first {
				reached <- struct{}{}
				<-resume
			}
		})
		defer SetYield(nil)
	}
	closeDone := make(chan struct{})
	go func() {
		drv.M.Close()
		close(closeDone)
	}()
	closedOnce = true
	if plan.PauseClose && SetYield != nil {
		select {
		case <-reached:
			res.Paused = true
			// Close is parked after its broadcast: let every waiter run until it finishes or blocks again
			for _, t := range pend {
				t.p.Settle(20 * time.Second)
			}
			close(resume)
		case <-closeDone:
		case <-time.After(30 * time.Second):
			res.Skip = "Close neither reached its yield point nor returned"
			return res
		}
	}
	select {
	case <-closeDone:
	case <-time.After(30 * time.Second):
		res.add("Close did not return within 30 s (pending at close: %v)", res.Kinds)
		return res
	}
	// ---- every pending request completes with a non-200 status ----
	for _, t := range pend {
		done, state := t.p.Settle(20 * time.Second)
		if !done {
			res.add("request %q (%s) that was pending when Close was called is still blocked after Close returned: %s (close after op %d, paused=%v)", t.path, t.spec.Kind, state, plan.CloseAfterOp, res.Paused)
			return res
		}
		r := t.p.Resp()
		if r.Panic != "" {
			res.Violations = append(res.Violations, Violation{Prop: "C08", Msg: "panic in a request released by Close: " + r.Panic})
			return res
		}
		if t.blockedAtClose && r.Status == 200 {
			res.add("request %q (%s) that was blocked when Close was called completed with status 200", t.path, t.spec.Kind)
			return res
		}
	}
	// ---- requests issued later return promptly, no lock is left held ----
	var later []string
	later = append(later, "index.m3u8")
	for _, s := range streams {
		later = append(later, s+"_stream.m3u8")
		if st := states[s]; st != nil && cfg.Variant == VariantLL {
			later = append(later, s+"_stream.m3u8?_HLS_msn="+strconv.FormatInt(st.last+1, 10)+"&_HLS_part="+strconv.Itoa(st.open))
			if st.hint != "" {
				later = append(later, st.hint)
			}
			for u := range st.partURIs {
				later = append(later, u)
				break
			}
		}
	}
	for _, path := range later {
		r := drv.Get(path)
		if r.Status == -2 {
			res.add("request %q issued after Close returned does not return: %s (pending kinds at close: %v, paused=%v)", path, r.BlockedOn, res.Kinds, res.Paused)
			return res
		}
		if r.Panic != "" {
			res.Violations = append(res.Violations, Violation{Prop: "C08", Msg: "panic in a request issued after Close: " + r.Panic})
			return res
		}
	}
	// ---- storage released ----
	if left := drv.DirEntries(); len(left) > 0 {
		res.add("files left in Directory after Close: %v", left)
	}
	if plan.CloseTwice && len(res.Violations) == 0 {
		// a second Close (deferred + explicit): whatever it does, once it has returned the
		// statement's guarantees about requests must still hold. A panic of the second Close is
		// outside the statement and only ends the case.
		again := make(chan string, 1)
		go func() {
			defer func() {
				if r := recover(); r != nil {
					again <- fmt.Sprint(r)
					return
				}
				again <- ""
			}()
			drv.M.Close()
		}()
		select {
		case p := <-again:
			if p != "" {
				// the statement says nothing about a repeated Close; a panic there ends the case
				res.SecondClosePanicked = true
				return res
			}
			res.ClosedTwice = true
		case <-time.After(30 * time.Second):
			res.add("a second Close did not return within 30 s")
			return res
		}
	}

	if res.ClosedTwice {
		for _, path := range later {
			r := drv.Get(path)
			if r.Status == -2 {
				res.add("request %q issued after a second Close returned does not return: %s", path, r.BlockedOn)
				return res
			}
		}
		if left := drv.DirEntries(); len(left) > 0 {
			res.add("files left in Directory after a second Close: %v", left)
		}
	}
	return res
}
