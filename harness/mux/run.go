package mux

import (
	"bytes"
	"fmt"
	"net/http"
	"net/url"
	"os"
	"regexp"
	"runtime"
	"strconv"
	"strings"
	"sync"
	"time"

	gohlslib "github.com/bluenviron/gohlslib/v2"
)

// ---- goroutine state inspection --------------------------------------------------------------

var goidRe = regexp.MustCompile(`^goroutine (\d+) \[`)
var goHdrRe = regexp.MustCompile(`^goroutine (\d+) \[([^\]]*)\]`)

// CurrentGoroutineID returns the id of the calling goroutine.
func CurrentGoroutineID() int64 {
	var buf [64]byte
	n := runtime.Stack(buf[:], false)
	m := goidRe.FindSubmatch(buf[:n])
	if m == nil {
		return -1
	}
	id, _ := strconv.ParseInt(string(m[1]), 10, 64)
	return id
}

// GoroutineInfo is one entry of a goroutine dump.
type GoroutineInfo struct {
	ID    int64
	State string
	Stack string
}

// Goroutines parses runtime.Stack(all).
func Goroutines() []GoroutineInfo {
	buf := make([]byte, 1<<16)
	for {
		n := runtime.Stack(buf, true)
		if n < len(buf) {
			buf = buf[:n]
			break
		}
		buf = make([]byte, 2*len(buf))
	}
	var out []GoroutineInfo
	for _, blk := range strings.Split(string(buf), "\n\n") {
		m := goHdrRe.FindStringSubmatch(blk)
		if m == nil {
			continue
		}
		id, _ := strconv.ParseInt(m[1], 10, 64)
		st := m[2]
		if i := strings.IndexByte(st, ','); i >= 0 {
			st = st[:i]
		}
		out = append(out, GoroutineInfo{ID: id, State: st, Stack: blk})
	}
	return out
}

// StateOf returns the scheduler state of goroutine id ("" if it no longer exists).
func StateOf(id int64) (string, string) {
	for _, g := range Goroutines() {
		if g.ID == id {
			return g.State, g.Stack
		}
	}
	return "", ""
}

// mutexPatience is how long a goroutine may wait for a lock before the lock counts as leaked.
const mutexPatience = 3 * time.Second

func isLockState(s string) bool {
	switch s {
	case "semacquire", "sync.Mutex.Lock", "sync.RWMutex.RLock", "sync.RWMutex.Lock":
		return true
	}
	return false
}

// blockedStates are the states in which a goroutine cannot proceed without another goroutine
// acting.
func isBlockedState(s string) bool {
	switch s {
	case "sync.Cond.Wait", "select", "chan receive", "chan send", "select (no cases)", "sync.WaitGroup.Wait":
		return true
	}
	return false
}

// ---- responses -------------------------------------------------------------------------------

// Resp is a recorded HTTP response of Muxer.Handle.
type Resp struct {
	Status     int // 0: the handler neither wrote a header nor a body ("unanswered")
	Header     http.Header
	Body       []byte
	Panic      string
	BlockedOn  string // set when the request was abandoned while blocked (state)
	wroteEarly bool
}

// recorder is a ResponseWriter with net/http's semantics: the header map is sent (frozen) by
// WriteHeader or by the first Write; what a handler sets afterwards is lost.
type recorder struct {
	h      http.Header
	sent   http.Header
	status int
	body   bytes.Buffer
}

func (w *recorder) Header() http.Header { return w.h }
func (w *recorder) WriteHeader(s int) {
	if w.status == 0 {
		w.status = s
		w.sent = w.h.Clone()
	}
}
func (w *recorder) Write(p []byte) (int, error) {
	if w.status == 0 {
		w.WriteHeader(200)
	}
	return w.body.Write(p)
}
func (w *recorder) sentHeader() http.Header {
	if w.sent != nil {
		return w.sent
	}
	return w.h
}

// Pending is a request running in its own goroutine.
type Pending struct {
	Path string
	done chan struct{}
	resp Resp
	gid  int64
	gidC chan int64
}

// Done reports whether the request finished.
func (p *Pending) Done() bool {
	select {
	case <-p.done:
		return true
	default:
		return false
	}
}

// Resp returns the response (valid once Done).
func (p *Pending) Resp() Resp { return p.resp }

// Settle waits until the request has finished or its goroutine is observed blocked inside a
// synchronisation primitive (state observation, not a timeout). It returns the state in the
// blocked case. maxWait only bounds a pathological situation (busy goroutine) and yields
// state "unsettled".
func (p *Pending) Settle(maxWait time.Duration) (done bool, state string) {
	if p.gid == 0 {
		p.gid = <-p.gidC
	}
	deadline := time.Now().Add(maxWait)
	var lockSince time.Time
	for spin := 0; ; spin++ {
		if p.Done() {
			return true, ""
		}
		if spin < 8 {
			runtime.Gosched()
			continue
		}
		st, _ := StateOf(p.gid)
		if st == "" {
			// goroutine gone: done must be closed
			<-p.done
			return true, ""
		}
		if isLockState(st) {
			// waiting for a lock: whoever holds it normally releases it within microseconds.
			// Only a lock that stays unavailable for mutexPatience counts as blocked (leaked lock).
			if lockSince.IsZero() {
				lockSince = time.Now()
			}
			if time.Since(lockSince) > mutexPatience {
				return false, st + " (lock not released)"
			}
			time.Sleep(100 * time.Microsecond)
			continue
		}
		lockSince = time.Time{}
		if isBlockedState(st) {
			// confirm it is still blocked and not finished
			if p.Done() {
				return true, ""
			}
			return false, st
		}
		if time.Now().After(deadline) {
			return false, "unsettled:" + st
		}
		if spin < 50 {
			runtime.Gosched()
		} else {
			time.Sleep(50 * time.Microsecond)
		}
	}
}

// ---- driver ----------------------------------------------------------------------------------

// Driver runs a script against a real gohlslib.Muxer.
type Driver struct {
	Cfg    Config
	M      *gohlslib.Muxer
	Dir    string
	Tracks []*gohlslib.Track

	mu           sync.Mutex
	EncodeErrors []string
	closed       bool
}

// NewDriver starts a muxer for cfg. Disk-backed configurations get a fresh directory under
// tmpBase.
func NewDriver(cfg Config, tmpBase string) (*Driver, error) {
	d := &Driver{Cfg: cfg}
	for _, t := range cfg.Tracks {
		d.Tracks = append(d.Tracks, &gohlslib.Track{
			Codec: CodecOf(t), ClockRate: t.ClockRate(), Name: t.Name, Language: t.Language, IsDefault: t.IsDefault,
		})
	}
	if cfg.Disk {
		if tmpBase == "" {
			tmpBase = os.TempDir()
		}
		dir, err := os.MkdirTemp(tmpBase, "mux")
		if err != nil {
			return nil, err
		}
		d.Dir = dir
	}
	d.M = &gohlslib.Muxer{
		Tracks:             d.Tracks,
		Variant:            gohlslib.MuxerVariant(cfg.Variant),
		SegmentCount:       cfg.SegmentCount,
		SegmentMinDuration: time.Duration(cfg.SegmentMinDuration),
		PartMinDuration:    time.Duration(cfg.PartMinDuration),
		SegmentMaxSize:     cfg.SegmentMaxSize,
		Directory:          d.Dir,
		OnEncodeError: func(err error) {
			d.mu.Lock()
			d.EncodeErrors = append(d.EncodeErrors, err.Error())
			d.mu.Unlock()
		},
	}
	if err := d.M.Start(); err != nil {
		if d.Dir != "" {
			os.RemoveAll(d.Dir)
		}
		return nil, err
	}
	return d, nil
}

// Write performs op i.
func (d *Driver) Write(i int, op Op) (err error) {
	defer func() {
		if r := recover(); r != nil {
			err = fmt.Errorf("PANIC in Write: %v", r)
		}
	}()
	a := ArgsOf(d.Cfg, i, op)
	tr := d.Tracks[op.Track]
	switch d.Cfg.Tracks[op.Track].Codec {
	case "h264":
		return d.M.WriteH264(tr, a.NTP, a.PTS, a.Units)
	case "h265":
		return d.M.WriteH265(tr, a.NTP, a.PTS, a.Units)
	case "av1":
		return d.M.WriteAV1(tr, a.NTP, a.PTS, a.Units)
	case "vp9":
		return d.M.WriteVP9(tr, a.NTP, a.PTS, a.Units[0])
	case "aac":
		return d.M.WriteMPEG4Audio(tr, a.NTP, a.PTS, a.Units)
	case "opus":
		return d.M.WriteOpus(tr, a.NTP, a.PTS, a.Units)
	}
	return fmt.Errorf("unknown codec")
}

func (d *Driver) handle(pathAndQuery string) (resp Resp) {
	u, err := url.Parse("http://localhost/" + pathAndQuery)
	if err != nil {
		return Resp{Status: -1, Panic: "harness: bad url: " + err.Error()}
	}
	w := &recorder{h: make(http.Header)}
	defer func() {
		if r := recover(); r != nil {
			buf := make([]byte, 4096)
			n := runtime.Stack(buf, false)
			resp = Resp{Status: w.status, Header: w.sentHeader(), Body: w.body.Bytes(), Panic: fmt.Sprintf("%v\n%s", r, buf[:n])}
		}
	}()
	d.M.Handle(w, &http.Request{Method: "GET", URL: u})
	return Resp{Status: w.status, Header: w.sentHeader(), Body: w.body.Bytes()}
}

// Go issues a request in its own goroutine.
func (d *Driver) Go(pathAndQuery string) *Pending {
	p := &Pending{Path: pathAndQuery, done: make(chan struct{}), gidC: make(chan int64, 1)}
	go func() {
		p.gidC <- CurrentGoroutineID()
		p.resp = d.handle(pathAndQuery)
		close(p.done)
	}()
	return p
}

// SlowGate controls a response writer whose Write blocks: a client that reads slowly.
type SlowGate struct {
	Started chan struct{} // closed when the handler first writes body bytes
	release chan struct{}
	once    sync.Once
	rel     sync.Once
}

// Release lets the blocked (and every later) Write proceed.
func (g *SlowGate) Release() { g.rel.Do(func() { close(g.release) }) }

type slowRecorder struct {
	recorder
	gate *SlowGate
}

func (w *slowRecorder) Write(p []byte) (int, error) {
	w.gate.once.Do(func() { close(w.gate.Started) })
	<-w.gate.release
	return w.recorder.Write(p)
}

// GoSlow issues a request whose response body is read by a slow client: the handler's first
// Write blocks until the gate is released.
func (d *Driver) GoSlow(pathAndQuery string) (*Pending, *SlowGate) {
	g := &SlowGate{Started: make(chan struct{}), release: make(chan struct{})}
	p := &Pending{Path: pathAndQuery, done: make(chan struct{}), gidC: make(chan int64, 1)}
	go func() {
		p.gidC <- CurrentGoroutineID()
		u, err := url.Parse("http://localhost/" + pathAndQuery)
		if err != nil {
			p.resp = Resp{Status: -1, Panic: "harness: bad url"}
			close(p.done)
			return
		}
		w := &slowRecorder{recorder: recorder{h: make(http.Header)}, gate: g}
		func() {
			defer func() {
				if r := recover(); r != nil {
					p.resp = Resp{Status: w.status, Panic: fmt.Sprint(r)}
				}
			}()
			d.M.Handle(w, &http.Request{Method: "GET", URL: u})
			p.resp = Resp{Status: w.status, Header: w.sentHeader(), Body: w.body.Bytes()}
		}()
		close(p.done)
	}()
	return p, g
}

// GetDirect issues a request on the calling goroutine. Only for requests that cannot block
// (segments, parts, init files, playlists of a stream that already answered).
func (d *Driver) GetDirect(pathAndQuery string) Resp { return d.handle(pathAndQuery) }

// Get issues a request and waits for the answer; when the request blocks inside the muxer it
// is abandoned (it stays pending until the muxer releases it) and BlockedOn is set.
func (d *Driver) Get(pathAndQuery string) Resp {
	p := d.Go(pathAndQuery)
	done, st := p.Settle(20 * time.Second)
	if done {
		return p.Resp()
	}
	return Resp{Status: -2, BlockedOn: st}
}

// Close closes the muxer and removes the scratch directory. It returns the directory entries
// that were still present after Muxer.Close.
func (d *Driver) Close() []string {
	if d.closed {
		return nil
	}
	d.closed = true
	d.M.Close()
	var left []string
	if d.Dir != "" {
		ents, _ := os.ReadDir(d.Dir)
		for _, e := range ents {
			left = append(left, e.Name())
		}
		os.RemoveAll(d.Dir)
	}
	return left
}

// DirEntries lists the files currently in the muxer's directory.
func (d *Driver) DirEntries() []string {
	if d.Dir == "" {
		return nil
	}
	ents, _ := os.ReadDir(d.Dir)
	var out []string
	for _, e := range ents {
		out = append(out, e.Name())
	}
	return out
}
