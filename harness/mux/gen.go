package mux

import (
	"sort"

	"pgregory.net/rapid"
)

// Profile steers the script generator towards the inputs a property needs.
type Profile struct {
	Name         string
	Variants     []int
	LeadUnits    [2]int // number of leading-track units
	MaxAudio     int
	Long         bool // many rotations: tiny segments
	Boundary     bool // key-frame spacing placed around SegmentMinDuration
	Durations    bool // irregular durations, odd sample rates
	ParamRate    int  // percent of random-access units that change parameters (0..100)
	SmallMax     bool // small SegmentMaxSize with payloads straddling it
	ConstantLL   bool // C19: constant sample duration, Low-Latency only
	HalfSecond   bool // sometimes build segments that last exactly N.5 s on whole-nanosecond boundaries
	Codecs       []string
	AllowDisk    bool
	OversizedRA  bool // with SmallMax: some random access units exceed SegmentMaxSize on their own
	MoreAudioLed bool // a third of the scripts more are audio-led
	MultiAU      bool // with ConstantLL: AAC writes may still carry several access units
	SegCountMax  int
}

var audioRates = []int{48000, 44100, 32000, 24000, 22050, 16000, 12000, 11025, 8000, 96000, 88200, 64000}

func drawTracks(t *rapid.T, p Profile, variant int) []TrackSpec {
	var tracks []TrackSpec
	videoCodecs := p.Codecs
	if len(videoCodecs) == 0 {
		videoCodecs = []string{"h264", "h264", "h265", "av1", "vp9"}
	}
	hasVideo := rapid.IntRange(0, 4).Draw(t, "hasVideo") != 0
	if p.MoreAudioLed && rapid.IntRange(0, 2).Draw(t, "audioLed") == 0 {
		hasVideo = false
	}
	nAudio := rapid.IntRange(0, p.MaxAudio).Draw(t, "nAudio")
	if variant == VariantMPEGTS {
		if nAudio > 1 {
			nAudio = 1
		}
	}
	if !hasVideo && nAudio == 0 {
		nAudio = 1
	}
	var video *TrackSpec
	if hasVideo {
		codec := rapid.SampledFrom(videoCodecs).Draw(t, "vcodec")
		if variant == VariantMPEGTS {
			codec = "h264"
		}
		v := TrackSpec{Codec: codec}
		switch codec {
		case "h265":
			v.Params = rapid.SampledFrom([]int{0, 0, 1, 2}).Draw(t, "h265set")
		default:
			v.Params = rapid.IntRange(0, NumParamSets(codec)-1).Draw(t, "vparams")
			if codec == "h264" && !p.ConstantLL && rapid.IntRange(0, 3).Draw(t, "h264reorder") == 0 {
				// reorder family: decode times derived from picture order counts (dts != pts)
				v.Params = H264ReorderBase + rapid.IntRange(0, NumH264ReorderSets-1).Draw(t, "h264reorderSet")
			}
		}
		// a default flag on the video track is legal and has no meaning for the renditions
		v.IsDefault = rapid.IntRange(0, 5).Draw(t, "videoDefault") == 0
		video = &v
	}
	defaultAt := -1
	if nAudio > 0 && rapid.Bool().Draw(t, "userDefault") {
		defaultAt = rapid.IntRange(0, nAudio-1).Draw(t, "defaultAt")
	}
	var audio []TrackSpec
	for i := 0; i < nAudio; i++ {
		a := TrackSpec{}
		if variant != VariantMPEGTS && rapid.IntRange(0, 2).Draw(t, "opus") == 0 {
			a.Codec = "opus"
			a.Channels = rapid.IntRange(1, 2).Draw(t, "och")
		} else {
			a.Codec = "aac"
			a.SampleRate = rapid.SampledFrom(audioRates).Draw(t, "rate")
			a.Channels = rapid.IntRange(1, 2).Draw(t, "ach")
			a.AACType = 2
		}
		if rapid.Bool().Draw(t, "named") {
			a.Name = rapid.StringMatching(`[A-Za-z][A-Za-z0-9 _-]{0,10}`).Draw(t, "name")
		}
		if rapid.Bool().Draw(t, "lang") {
			a.Language = rapid.SampledFrom([]string{"en", "de", "it", "fr-CA", "zh-Hans"}).Draw(t, "language")
		}
		a.IsDefault = i == defaultAt
		audio = append(audio, a)
	}
	// order: video anywhere among the audio tracks
	pos := 0
	if video != nil {
		pos = rapid.IntRange(0, len(audio)).Draw(t, "videoPos")
	}
	for i := 0; i <= len(audio); i++ {
		if video != nil && i == pos {
			tracks = append(tracks, *video)
		}
		if i < len(audio) {
			tracks = append(tracks, audio[i])
		}
	}
	return tracks
}

type timedOp struct {
	op    Op
	media float64 // seconds since stream start, for interleaving
}

// DrawScript draws a script for profile p.
func DrawScript(t *rapid.T, p Profile) Script {
	variant := rapid.SampledFrom(p.Variants).Draw(t, "variant")
	cfg := Config{Variant: variant}
	cfg.Tracks = drawTracks(t, p, variant)
	minCount := 3
	if variant == VariantLL {
		minCount = 7
	}
	maxCount := p.SegCountMax
	if maxCount < minCount {
		maxCount = 12
	}
	cfg.SegmentCount = rapid.IntRange(minCount, maxCount).Draw(t, "segmentCount")
	if p.AllowDisk {
		cfg.Disk = rapid.IntRange(0, 2).Draw(t, "disk") == 0
	}
	lead := cfg.LeadingTrack()
	leadSpec := cfg.Tracks[lead]
	leadRate := int64(leadSpec.ClockRate())

	// --- durations ---------------------------------------------------------------------------
	var frameTicks int64 // nominal leading unit duration in ticks
	if leadSpec.IsVideo() && p.ConstantLL {
		frameTicks = rapid.OneOf(
			rapid.SampledFrom([]int64{3000, 3003, 1500, 1501, 3600, 3750, 3754, 6000, 6006, 9000, 7500, 750, 1800, 90000, 45000, 18000}),
			rapid.Int64Range(750, 90000),
		).Draw(t, "frameTicksC19")
	} else if leadSpec.IsVideo() {
		frameTicks = rapid.SampledFrom([]int64{3000, 3000, 3003, 1500, 1501, 3600, 3750, 6000, 9000, 750, 90000, 1, 7}).Draw(t, "frameTicks")
	} else if leadSpec.Codec == "aac" {
		frameTicks = 1024
	} else {
		frameTicks = 960
	}
	frameNS := frameTicks * 1_000_000_000 / leadRate
	switch {
	case p.Long:
		// tiny segments: one to a few units each
		// k units minus a third of a unit: boundary decisions stay clear of the 1 ns band
		cfg.SegmentMinDuration = rapid.Int64Range(1, 4).Draw(t, "minUnits")*frameNS - frameNS/3
		if cfg.SegmentMinDuration < 1 {
			cfg.SegmentMinDuration = 1
		}
	case p.Boundary:
		cfg.SegmentMinDuration = rapid.SampledFrom([]int64{10e6, 100e6, 200e6, 500e6, 1e9, 2e9, 5e9, 333333333, 1234567891}).Draw(t, "segMin")
	default:
		cfg.SegmentMinDuration = rapid.SampledFrom([]int64{50e6, 100e6, 300e6, 500e6, 1e9, 2e9}).Draw(t, "segMin")
	}
	if variant == VariantLL {
		cfg.PartMinDuration = rapid.SampledFrom([]int64{20e6, 50e6, 100e6, 200e6, 500e6, 33e6, 71e6}).Draw(t, "partMin")
		if p.ConstantLL {
			cfg.PartMinDuration = rapid.OneOf(
				rapid.Map(rapid.Int64Range(10, 400), func(v int64) int64 { return v * 5_000_000 }),
				rapid.Int64Range(50_000_000, 2_000_000_000),
			).Draw(t, "partMinC19")
			cfg.SegmentMinDuration = rapid.SampledFrom([]int64{500e6, 1e9, 2e9, 3e9, 6e9}).Draw(t, "segMinC19")
		}
	}
	if p.SmallMax {
		cfg.SegmentMaxSize = uint64(rapid.OneOf(rapid.IntRange(400, 2000), rapid.IntRange(2000, 20000)).Draw(t, "segMaxSize"))
	}
	spikeEvery := 0
	if p.SmallMax {
		spikeEvery = rapid.SampledFrom([]int{0, 0, 150, 400, 1000}).Draw(t, "spikeEvery")
	}

	nLead := rapid.IntRange(p.LeadUnits[0], p.LeadUnits[1]).Draw(t, "nLead")
	if variant == VariantMPEGTS && !leadSpec.IsVideo() && !p.Long {
		// the 100-write rule of audio-only MPEG-TS needs long scripts to complete segments
		nLead = rapid.IntRange(150, 460).Draw(t, "nLeadAudioTS")
	}
	reorderLead := leadSpec.Codec == "h264" && IsH264Reorder(leadSpec.Params)
	half := p.HalfSecond && leadSpec.IsVideo() && !reorderLead && rapid.IntRange(0, 5).Draw(t, "half") == 0
	start := rapid.OneOf(
		rapid.Int64Range(0, 10*leadRate),
		rapid.Int64Range(-10*leadRate, 0),
		rapid.Just(int64(0)),
		rapid.Int64Range(0, 1<<40),
		// just below the points where tick * 10^9 leaves 63 / 64 bits, and below 2^32 ticks: the
		// stream crosses them after a few seconds
		rapid.Map(rapid.Int64Range(0, 4*leadRate), func(d int64) int64 { return 9_223_372_036 - d }),
		rapid.Map(rapid.Int64Range(0, 4*leadRate), func(d int64) int64 { return 18_446_744_073 - d }),
		rapid.Map(rapid.Int64Range(0, 4*leadRate), func(d int64) int64 { return 1<<32 - 900_000 - d }),
	).Draw(t, "start")
	ntpBase := int64(1_577_836_800_000_000_000) + rapid.Int64Range(0, 86_400_000_000_000).Draw(t, "ntpBase")
	cfg.NTPZoneMin = rapid.SampledFrom([]int{0, 0, 0, 120, -330, 345, -720, 840}).Draw(t, "ntpZone")

	// key frame spacing in units
	unitsPerMin := cfg.SegmentMinDuration / maxI64(frameNS, 1)
	if unitsPerMin < 1 {
		unitsPerMin = 1
	}
	var gop int64
	switch {
	case p.Long:
		gop = rapid.Int64Range(1, 5).Draw(t, "gop")
	case p.Boundary:
		gop = rapid.SampledFrom([]int64{maxI64(unitsPerMin/4, 1), maxI64(unitsPerMin/2, 1), maxI64(unitsPerMin-1, 1), unitsPerMin, unitsPerMin + 1, unitsPerMin*3/2 + 1, unitsPerMin * 3}).Draw(t, "gop")
	default:
		gop = rapid.Int64Range(1, maxI64(2*unitsPerMin, 4)).Draw(t, "gop")
	}
	if gop > 300 {
		gop = 300
	}
	irregularRA := rapid.IntRange(0, 3).Draw(t, "irregularRA") == 0
	if half {
		// segments of exactly N.5 s whose boundaries are whole nanoseconds
		hs := rapid.SampledFrom([][2]int64{{9000, 5}, {9000, 15}, {9000, 25}, {4500, 10}, {4500, 30}, {45000, 1}, {45000, 3}, {22500, 2}, {22500, 6}}).Draw(t, "halfShape")
		frameTicks, gop = hs[0], hs[1]
		frameNS = frameTicks * 1_000_000_000 / leadRate
		cfg.SegmentMinDuration = gop*frameNS - rapid.SampledFrom([]int64{0, 0, 1, frameNS / 2}).Draw(t, "halfMinSlack")
		start = (start / 9) * 9
		irregularRA = false
		nLead = int(gop)*rapid.IntRange(3, 7).Draw(t, "halfSegs") + 2
	}
	durMode := rapid.SampledFrom([]string{"constant", "constant", "jitter", "irregular"}).Draw(t, "durMode")
	if p.ConstantLL {
		durMode = "constant"
	}
	if p.Durations {
		durMode = rapid.SampledFrom([]string{"jitter", "irregular", "irregular"}).Draw(t, "durMode2")
	}
	if half {
		durMode = "constant"
	}
	midGOP := rapid.IntRange(0, 2).Draw(t, "midGOP") == 0 && leadSpec.IsVideo()

	// the wall clock the NTP values come from is stepped 0-2 times per script
	type ntpJump struct {
		at float64
		d  int64
	}
	var ntpJumps []ntpJump
	streamSec := float64(nLead) * float64(frameTicks) / float64(leadRate)
	for k := rapid.SampledFrom([]int{0, 0, 1, 2}).Draw(t, "ntpJumps"); k > 0; k-- {
		ntpJumps = append(ntpJumps, ntpJump{
			at: streamSec * float64(rapid.IntRange(5, 95).Draw(t, "ntpJumpAt")) / 100,
			d:  int64(rapid.SampledFrom([]int{-700, -40, 15, 120, 500, 3000}).Draw(t, "ntpJumpMs")) * 1_000_000,
		})
	}
	ntpStep := func(mediaSec float64) int64 {
		var sh int64
		for _, j := range ntpJumps {
			if mediaSec >= j.at {
				sh += j.d
			}
		}
		return sh
	}
	var all [][]timedOp
	// --- video / leading timeline ---------------------------------------------------------------
	for ti, spec := range cfg.Tracks {
		rate := int64(spec.ClockRate())
		var ops []timedOp
		if spec.IsVideo() {
			ts := start
			curSet := spec.Params
			timingFlavor := spec.Codec == "h265" && spec.Params == 1
			reorder := spec.Codec == "h264" && IsH264Reorder(spec.Params)
			av1Delimiters := spec.Codec == "av1" && rapid.Bool().Draw(t, "av1Delimiters")
			bDepth := int64(0)
			if reorder {
				bDepth = rapid.Int64Range(0, 2).Draw(t, "bFrames")
			}
			var gopBase, gopIdx, maxDisp int64
			gopStarted := false
			gopBase = ts
			first := true
			sinceRA := int64(0)
			pendingChange := false
			for k := 0; k < nLead; k++ {
				op := Op{Track: ti, TS: ts}
				op.Size = rapid.IntRange(8, 40).Draw(t, "size")
				if spikeEvery > 0 && rapid.IntRange(0, spikeEvery-1).Draw(t, "spike") == 0 {
					op.Size = rapid.IntRange(int(cfg.SegmentMaxSize)/4, int(cfg.SegmentMaxSize)+50).Draw(t, "bigsize")
				}
				ra := false
				if first && !midGOP {
					ra = true
				} else if first && midGOP && k < 3 {
					ra = false
				} else if irregularRA {
					ra = rapid.Int64Range(0, gop).Draw(t, "raNow") == 0
				} else {
					ra = sinceRA >= gop
				}
				if first && midGOP && k >= 3 {
					ra = true
				}
				if ra && p.OversizedRA && p.SmallMax && rapid.IntRange(0, 14).Draw(t, "oversizedRA") == 0 {
					// a random access unit that cannot fit: rejected right where a segment would open
					op.Size = int(cfg.SegmentMaxSize) + rapid.IntRange(1, 50).Draw(t, "oversize")
				}
				if ra {
					op.Kind = KindRA
					sinceRA = 1
					change := !timingFlavor && !first && p.ParamRate > 0 && rapid.IntRange(0, 99).Draw(t, "change") < p.ParamRate
					if change {
						n := NumParamSets(spec.Codec)
						if reorder {
							curSet = H264ReorderBase + (curSet-H264ReorderBase+1+rapid.IntRange(0, NumH264ReorderSets-2).Draw(t, "newSetR"))%NumH264ReorderSets
						} else if spec.Codec == "h265" {
							// stay among the dts=pts sets
							if curSet == 0 {
								curSet = 2
							} else {
								curSet = 0
							}
						} else {
							curSet = (curSet + 1 + rapid.IntRange(0, n-2).Draw(t, "newSet")) % n
						}
					}
					inBand := first || change || pendingChange || rapid.Bool().Draw(t, "inband") || spec.Codec == "av1" || spec.Codec == "vp9"
					if inBand {
						op.InBand = curSet + 1
					}
					pendingChange = false
					first = false
				} else {
					op.Kind = KindInter
					sinceRA++
					if first {
						// before the first random access unit: still counts as not started
					} else if !timingFlavor && !reorder && p.ParamRate > 0 && (spec.Codec == "h264" || spec.Codec == "h265") && rapid.IntRange(0, 399).Draw(t, "interChange") < p.ParamRate {
						// parameters changed on a non random access unit or on a parameter-only unit
						if spec.Codec == "h265" {
							if curSet == 0 {
								curSet = 2
							} else {
								curSet = 0
							}
						} else {
							curSet = (curSet + 1) % NumParamSets(spec.Codec)
						}
						op.InBand = curSet + 1
						pendingChange = true
						// a write without any picture is only defined for H264 (the muxer ignores it there)
						if spec.Codec == "h264" && rapid.Bool().Draw(t, "paramOnly") {
							op.Kind = KindParamOnly
						}
					} else if spec.Codec == "h264" && !reorder && rapid.IntRange(0, 40).Draw(t, "sei") == 0 {
						op.Kind = KindSEI
					}
				}
				if spec.Codec == "av1" && av1Delimiters && rapid.IntRange(0, 2).Draw(t, "td") != 0 {
					op.Tmpl = 1
				}
				if timingFlavor {
					if op.Kind == KindRA {
						op.Tmpl = 1
					} else {
						op.Tmpl = 2 + rapid.IntRange(0, 3).Draw(t, "tmpl")
					}
				}
				if reorder {
					// ts is the decode slot; the written time stamp is the presentation time of the
					// frame's display slot inside its group of pictures (I P B B P B B ... in decode
					// order shown as I B B P B B P ...). Frames last frameTicks each.
					var disp int64
					kind := 1
					switch {
					case op.Kind == KindRA:
						if gopStarted {
							gopBase = maxI64(ts, gopBase+(maxDisp+1)*frameTicks)
						} else {
							gopBase = ts
						}
						gopStarted, gopIdx, maxDisp = true, 0, 0
						ts = gopBase
						kind = 0
					case !gopStarted:
						// before the first random access unit: P frames in display order
						gopBase = ts
					default:
						gopIdx++
						g, pos := (gopIdx-1)/(bDepth+1), (gopIdx-1)%(bDepth+1)
						if pos == 0 {
							disp = (g + 1) * (bDepth + 1)
						} else {
							disp = g*(bDepth+1) + pos
							kind = 2
						}
						if disp > maxDisp {
							maxDisp = disp
						}
					}
					op.TS = gopBase + disp*frameTicks
					op.Tmpl = 1 + (int(2*disp)<<2 | kind)
				}
				op.NTP = ntpBase + (op.TS-start)*1_000_000_000/rate + rapid.Int64Range(-3_000_000, 3_000_000).Draw(t, "skew") + ntpStep(float64(op.TS-start)/float64(rate))
				ops = append(ops, timedOp{op: op, media: float64(ts-start) / float64(rate)})
				if op.Kind == KindParamOnly || op.Kind == KindSEI {
					continue // carries no picture: does not advance time
				}
				if reorder {
					ts += frameTicks
				} else {
					ts += drawDur(t, durMode, frameTicks, rate)
				}
			}
		} else {
			// audio
			ts := start*rate/leadRate + rapid.Int64Range(-rate/5, rate/5).Draw(t, "audioSkew")
			if ti == lead {
				ts = start
			}
			total := float64(nLead) * float64(frameTicks) / float64(leadRate) // seconds of stream
			if ti == lead {
				total = 1e18
			}
			count := 0
			for {
				if ti == lead && count >= nLead {
					break
				}
				media := float64(ts-start*rate/leadRate) / float64(rate)
				if ti != lead && (media > total+0.2 || count > 6*nLead+50) {
					break
				}
				op := Op{Track: ti, TS: ts, Size: rapid.IntRange(8, 32).Draw(t, "asize")}
				if spikeEvery > 0 && rapid.IntRange(0, 2*spikeEvery-1).Draw(t, "aspike") == 0 {
					op.Size = rapid.IntRange(int(cfg.SegmentMaxSize)/4, int(cfg.SegmentMaxSize)+50).Draw(t, "abig")
					if op.Size > 6000 {
						op.Size = 6000 // an ADTS frame cannot carry more than 8191 bytes
					}
				}
				var adv int64
				if spec.Codec == "aac" {
					op.N = rapid.SampledFrom([]int{1, 1, 1, 2, 3, 4}).Draw(t, "n")
					if (p.ConstantLL && !p.MultiAU) || (ti == lead && p.Long) {
						op.N = 1
					}
					adv = int64(op.N) * 1024
					if cfg.Variant == VariantMPEGTS {
						adv = int64(op.N) * 1024 * rate / int64(spec.SampleRate)
					}
				} else {
					op.OpusC = rapid.SampledFrom([]int{1, 3, 9, 13, 15, 17, 19, 27, 31, 0, 16, 2}).Draw(t, "opusCfg")
					op.OpusF = rapid.SampledFrom([]int{1, 1, 1, 2, 3}).Draw(t, "opusFrames")
					op.N = rapid.SampledFrom([]int{1, 1, 2, 3}).Draw(t, "n")
					if p.ConstantLL {
						op.OpusF, op.N = 1, 1
					}
					per := opusDuration(OpusPacket(op.OpusC, op.OpusF, nil))
					if per > 5760 || per == 0 {
						op.OpusF = 1
						per = opusDuration(OpusPacket(op.OpusC, 1, nil))
					}
					adv = per * int64(op.N)
					if op.N > 1 && !p.ConstantLL && rapid.Bool().Draw(t, "opusMix") {
						// packets of different durations inside one write
						op.OpusMix = true
						op.OpusF = 1
						adv = 0
						for k := 0; k < op.N; k++ {
							adv += opusDuration(OpusPacket(OpusMixConfig(op.OpusC, k), 1, nil))
						}
					}
				}
				if !p.ConstantLL && durMode == "irregular" && rapid.IntRange(0, 9).Draw(t, "agap") == 0 {
					adv += rapid.Int64Range(1, rate/2).Draw(t, "gap")
				}
				op.NTP = ntpBase + int64(media*1e9) + rapid.Int64Range(-3_000_000, 3_000_000).Draw(t, "askew") + ntpStep(media)
				ops = append(ops, timedOp{op: op, media: media})
				ts += adv
				count++
			}
		}
		all = append(all, ops)
	}
	// fix constant opus config for the C19 profile: all packets of a leading opus track alike
	if p.ConstantLL && !leadSpec.IsVideo() && leadSpec.Codec == "opus" && len(all[lead]) > 0 {
		c := all[lead][0].op.OpusC
		per := opusDuration(OpusPacket(c, 1, nil))
		ts := all[lead][0].op.TS
		for i := range all[lead] {
			all[lead][i].op.OpusC = c
			all[lead][i].op.TS = ts
			all[lead][i].media = float64(ts-start) / 48000
			ts += per
		}
	}

	// --- interleave --------------------------------------------------------------------------
	orderly := rapid.SampledFrom([]int{100, 100, 80, 30}).Draw(t, "orderly")
	idx := make([]int, len(all))
	var ops []Op
	for {
		var cand []int
		for ti := range all {
			if idx[ti] < len(all[ti]) {
				cand = append(cand, ti)
			}
		}
		if len(cand) == 0 {
			break
		}
		pick := cand[0]
		if len(cand) > 1 {
			if orderly == 100 || rapid.IntRange(0, 99).Draw(t, "inOrder") < orderly {
				sort.Slice(cand, func(a, b int) bool {
					return all[cand[a]][idx[cand[a]]].media < all[cand[b]][idx[cand[b]]].media
				})
				pick = cand[0]
			} else {
				pick = cand[rapid.IntRange(0, len(cand)-1).Draw(t, "pick")]
			}
		}
		ops = append(ops, all[pick][idx[pick]].op)
		idx[pick]++
	}
	return Script{Config: cfg, Ops: ops}
}

func maxI64(a, b int64) int64 {
	if a > b {
		return a
	}
	return b
}

func drawDur(t *rapid.T, mode string, nominal, rate int64) int64 {
	switch mode {
	case "jitter":
		j := nominal / 10
		if j < 1 {
			j = 1
		}
		d := nominal + rapid.Int64Range(-j, j).Draw(t, "jit")
		if d < 0 {
			d = 0
		}
		return d
	case "irregular":
		switch rapid.IntRange(0, 9).Draw(t, "irr") {
		case 0:
			return rapid.Int64Range(1, 3*rate).Draw(t, "long")
		case 1:
			return 1
		case 2:
			if rapid.IntRange(0, 3).Draw(t, "zero") == 0 {
				return 0
			}
			return nominal
		default:
			return nominal + rapid.Int64Range(0, maxI64(nominal/3, 1)).Draw(t, "irr2")
		}
	}
	return nominal
}
