package mux

import (
	"bytes"
	"fmt"
	"strconv"
	"strings"
	"sync"
	"sync/atomic"
	"time"

	"verifharness/m3u8x"
)

// E3: one writer, many concurrent readers (C08). Built with -race by the driver; this file
// holds the response validators, the race detector reports are read from stderr by bin/check.

// ReaderSpec is the URL policy of one concurrent reader.
type ReaderSpec struct {
	Kind   string `json:"kind"`   // index | plain | blocking | delta | init | newest-seg | random-part | hint | unknown | expired | mix
	Stream int    `json:"stream"` // index into Config.Streams()
}

// StressPlan is the concurrent part of a C08 scenario.
type StressPlan struct {
	Readers    []ReaderSpec `json:"readers"`
	PaceMicros int          `json:"pace_micros"` // sleep between writes
	CloseAt    int          `json:"close_at"`    // close after this op (-1: after the last one)
	YieldServe bool         `json:"yield_serve"` // widen the lookup/handler window with the serve yield point
}

// E3Result is the outcome of one stress plan.
type E3Result struct {
	Violations    []Violation
	Skip          string
	Responses     int
	Overlapped    int // responses whose request overlapped a write
	AfterFinalize int
	ByKind        map[string]int
}

// CheckSnapshot applies the single-response invariants of C03-C05 that need no model.
func CheckSnapshot(cfg Config, stream string, text string) (*m3u8x.XMedia, string) {
	return checkSnapshot(cfg, stream, text, false)
}

func checkSnapshot(cfg Config, stream string, text string, delta bool) (*m3u8x.XMedia, string) {
	if errs := m3u8x.Strict(text); len(errs) > 0 {
		return nil, "not grammatical: " + strings.Join(errs, "; ")
	}
	x, err := m3u8x.ParseMedia(text)
	if err != nil {
		return nil, "unreadable: " + err.Error()
	}
	if x.MediaSeq == nil || x.Target == nil || (len(x.Segments) == 0 && !(delta && x.Skip != nil)) {
		return x, "lacks MEDIA-SEQUENCE / TARGETDURATION / segments"
	}
	if delta && x.Skip != nil {
		// a delta update lists the segments after the skipped ones: shift the numbering
		sk := *x.Skip
		ms := *x.MediaSeq + sk
		y := *x
		y.MediaSeq = &ms
		if len(x.Segments)+int(sk) > cfg.SegmentCount {
			return x, fmt.Sprintf("%d skipped + %d listed segments exceed SegmentCount %d", sk, len(x.Segments), cfg.SegmentCount)
		}
		x = &y
	}
	if len(x.Segments) > cfg.SegmentCount {
		return x, fmt.Sprintf("%d segments listed, SegmentCount is %d", len(x.Segments), cfg.SegmentCount)
	}
	ll := cfg.Variant == VariantLL
	first := *x.MediaSeq
	last := first + int64(len(x.Segments)) - 1
	prevPart := int64(-1)
	var maxPart int64
	checkPart := func(p m3u8x.XPart) string {
		b, q := stripQuery(p.URI)
		if strings.Contains(q, "_HLS_") {
			return "part URI carries a _HLS_ directive"
		}
		m := partRe.FindStringSubmatch(b)
		if m == nil || m[2] != stream {
			return "part URI " + p.URI + " does not belong to the stream"
		}
		n, _ := strconv.ParseInt(m[3], 10, 64)
		if prevPart >= 0 && n != prevPart+1 {
			return fmt.Sprintf("part%d follows part%d", n, prevPart)
		}
		prevPart = n
		if p.DurationNS > maxPart {
			maxPart = p.DurationNS
		}
		return ""
	}
	for k, sg := range x.Segments {
		msn := first + int64(k)
		r := (sg.DurationNS + 499_999_999) / 1_000_000_000
		if r > *x.Target {
			return x, fmt.Sprintf("EXTINF %s rounds above TARGETDURATION %d", sg.DurText, *x.Target)
		}
		isGap := ll && msn < 7
		if sg.Gap != isGap {
			return x, fmt.Sprintf("msn %d gap=%v", msn, sg.Gap)
		}
		if isGap {
			continue
		}
		b, _ := stripQuery(sg.URI)
		m := segRe.FindStringSubmatch(b)
		if m == nil || m[2] != stream {
			return x, "segment URI " + sg.URI + " does not belong to the stream"
		}
		n, _ := strconv.ParseInt(m[3], 10, 64)
		if n != msn {
			return x, fmt.Sprintf("segment %s listed as msn %d", b, msn)
		}
		if len(sg.Parts) > 0 && (!ll || last-msn >= 2) {
			return x, fmt.Sprintf("parts listed under msn %d (last %d)", msn, last)
		}
		if ll && last-msn < 2 && len(sg.Parts) == 0 {
			return x, fmt.Sprintf("no parts under msn %d (last %d)", msn, last)
		}
		var sum int64
		for _, p := range sg.Parts {
			if e := checkPart(p); e != "" {
				return x, e
			}
			sum += p.DurationNS
		}
		if len(sg.Parts) > 0 && absI(sum-sg.DurationNS) > int64(len(sg.Parts)+1)*10_000 {
			return x, fmt.Sprintf("parts of msn %d add up to %d ns, EXTINF %s", msn, sum, sg.DurText)
		}
	}
	if ll {
		for _, p := range x.Parts {
			if e := checkPart(p); e != "" {
				return x, e
			}
		}
		if x.Hint == nil || x.PartTargetNS == nil || !x.HasServerCtl {
			return x, "Low-Latency playlist without hint / PART-INF / SERVER-CONTROL"
		}
		hb, _ := stripQuery(x.Hint.URI)
		hm := partRe.FindStringSubmatch(hb)
		if hm == nil {
			return x, "bad preload hint"
		}
		hn, _ := strconv.ParseInt(hm[3], 10, 64)
		if prevPart >= 0 && hn != prevPart+1 {
			return x, fmt.Sprintf("hint names part%d after part%d", hn, prevPart)
		}
		if maxPart > *x.PartTargetNS+10_000 {
			return x, fmt.Sprintf("a part lasts %d ns, PART-TARGET %s", maxPart, x.PartTargetTxt)
		}
		if a, ok := m3u8x.Get(x.ServerControl, "PART-HOLD-BACK"); ok {
			v, _ := m3u8x.ParseDecimalNS(a.Val)
			if v+10_000 < 2**x.PartTargetNS {
				return x, "PART-HOLD-BACK below twice PART-TARGET"
			}
		}
	} else if len(x.Parts) > 0 || x.Hint != nil {
		return x, "Low-Latency tags in a non Low-Latency playlist"
	}
	if cfg.Variant != VariantMPEGTS && x.MapURI == nil && x.Skip == nil {
		return x, "fMP4 playlist without EXT-X-MAP"
	}
	return x, ""
}

// RunStress runs the script with concurrent readers.
func RunStress(sc Script, plan StressPlan, tmpBase string) *E3Result {
	res := &E3Result{ByKind: map[string]int{}}
	cfg := sc.Config
	drv, err := NewDriver(cfg, tmpBase)
	if err != nil {
		res.Skip = "Start: " + err.Error()
		return res
	}
	streams := cfg.Streams()
	var vmu sync.Mutex
	addV := func(prop, f string, a ...any) {
		vmu.Lock()
		if len(res.Violations) < 8 {
			m := fmt.Sprintf(f, a...)
			if len(m) > 2000 {
				m = m[:2000] + "…"
			}
			res.Violations = append(res.Violations, Violation{Prop: prop, Msg: m})
		}
		vmu.Unlock()
	}
	var progress atomic.Int64 // writer progress: 2*i+1 while op i is being written, 2*i+2 after
	var stop atomic.Bool
	var responses, overlapped atomic.Int64
	if plan.YieldServe && SetYield != nil {
		var cnt atomic.Int64
		SetYield(func(point string) {
			if point == "mux.serve.afterLookup" && cnt.Add(1)%7 == 0 {
				time.Sleep(20 * time.Microsecond)
			}
		})
		defer SetYield(nil)
	}

	var wg sync.WaitGroup
	for ri, rs := range plan.Readers {
		wg.Add(1)
		go func(ri int, rs ReaderSpec) {
			defer wg.Done()
			s := streams[rs.Stream%len(streams)]
			var lastFirst, lastLast, lastTarget int64 = -1, -1, -1
			facts := map[int64]string{}
			var lastX *m3u8x.XMedia
			get := func(path string) Resp {
				before := progress.Load()
				r := drv.handle(path)
				after := progress.Load()
				responses.Add(1)
				if before != after || before%2 == 1 {
					overlapped.Add(1)
				}
				if r.Panic != "" {
					addV("C08", "reader %d: panic while serving %s: %s", ri, path, r.Panic)
				}
				return r
			}
			checkPlaylist := func(path string, r Resp, delta bool) *m3u8x.XMedia {
				if r.Status != 200 {
					return nil
				}
				x, e := checkSnapshot(cfg, s, string(r.Body), delta)
				if e != "" {
					addV("C08", "reader %d: response to %s is not a consistent snapshot: %s\n%s", ri, path, e, r.Body)
					return nil
				}
				first := *x.MediaSeq
				last := first + int64(len(x.Segments)) - 1
				if delta {
					first = lastFirst // the delta's own MEDIA-SEQUENCE was shifted by the skipped count
					if first < 0 {
						first = 0
					}
				}
				if first < lastFirst || last < lastLast || *x.Target < lastTarget {
					addV("C08", "reader %d: responses went backwards: window %d..%d target %d after %d..%d target %d", ri, first, last, *x.Target, lastFirst, lastLast, lastTarget)
				}
				lastFirst, lastLast, lastTarget = first, last, *x.Target
				if !delta {
					for k, sg := range x.Segments {
						b, _ := stripQuery(sg.URI)
						f := b + "|" + sg.DurText
						if old, ok := facts[first+int64(k)]; ok && old != f {
							addV("C08", "reader %d: msn %d changed from %s to %s", ri, first+int64(k), old, f)
						}
						facts[first+int64(k)] = f
					}
				}
				return x
			}
			iter := 0
			for !stop.Load() {
				iter++
				kind := rs.Kind
				if kind == "mix" {
					kind = []string{"plain", "newest-seg", "random-part", "index", "delta", "init", "blocking", "unknown", "expired", "hint"}[(iter+ri)%10]
				}
				vmu.Lock()
				res.ByKind[kind]++
				vmu.Unlock()
				switch kind {
				case "index":
					r := get("index.m3u8")
					if r.Status == 200 {
						if errs := m3u8x.Strict(string(r.Body)); len(errs) > 0 {
							addV("C08", "reader %d: multivariant playlist not grammatical: %v", ri, errs)
						}
					}
				case "plain":
					r := get(s + "_stream.m3u8")
					if x := checkPlaylist(s+"_stream.m3u8", r, false); x != nil {
						lastX = x
					}
				case "delta":
					if cfg.Variant != VariantLL {
						r := get(s + "_stream.m3u8")
						lastX = checkPlaylist("plain", r, false)
						continue
					}
					r := get(s + "_stream.m3u8?_HLS_skip=YES")
					checkPlaylist("delta", r, true)
				case "blocking":
					if cfg.Variant != VariantLL || lastX == nil {
						r := get(s + "_stream.m3u8")
						if x := checkPlaylist("plain", r, false); x != nil {
							lastX = x
						}
						continue
					}
					m := *lastX.MediaSeq + int64(len(lastX.Segments))
					p := int64(len(lastX.Parts))
					path := fmt.Sprintf("%s_stream.m3u8?_HLS_msn=%d&_HLS_part=%d", s, m, p)
					r := get(path)
					if r.Status == 200 {
						if e := containsMP(string(r.Body), m, true, p); e != "" {
							addV("C08", "reader %d: blocking response does not contain what was asked: %s\n%s", ri, e, r.Body)
						}
						if x := checkPlaylist(path, r, false); x != nil {
							lastX = x
						}
					}
				case "init", "newest-seg", "random-part":
					r := get(s + "_stream.m3u8")
					x := checkPlaylist("plain", r, false)
					if x == nil {
						continue
					}
					lastX = x
					var uri string
					switch {
					case kind == "init" && x.MapURI != nil:
						uri = *x.MapURI
					case kind == "random-part":
						var ps []string
						for _, sg := range x.Segments {
							for _, p := range sg.Parts {
								ps = append(ps, p.URI)
							}
						}
						for _, p := range x.Parts {
							ps = append(ps, p.URI)
						}
						if len(ps) > 0 {
							uri = ps[(iter*7+ri)%len(ps)]
						}
					}
					if uri == "" {
						for k := len(x.Segments) - 1; k >= 0; k-- {
							if !x.Segments[k].Gap {
								uri = x.Segments[k].URI
								break
							}
						}
					}
					if uri == "" {
						continue
					}
					fr := get(uri)
					if fr.Status != 200 || len(fr.Body) == 0 {
						// acceptable only if the URI left the window meanwhile
						r2 := get(s + "_stream.m3u8")
						if r2.Status == 200 && strings.Contains(string(r2.Body), uri) {
							addV("C08", "reader %d: %s listed before and after the fetch but answered status %d with %d bytes", ri, uri, fr.Status, len(fr.Body))
						}
					} else {
						fr2 := get(uri)
						// (the init file legitimately changes when codec parameters change)
						if kind != "init" && fr2.Status == 200 && !bytes.Equal(fr.Body, fr2.Body) {
							addV("C08", "reader %d: %s returned different bytes on two consecutive fetches (%d vs %d)", ri, uri, len(fr.Body), len(fr2.Body))
						}
					}
				case "hint":
					if cfg.Variant != VariantLL {
						get(s + "_stream.m3u8")
						continue
					}
					r := get(s + "_stream.m3u8")
					x := checkPlaylist("plain", r, false)
					if x == nil || x.Hint == nil {
						continue
					}
					lastX = x
					hr := get(x.Hint.URI)
					if hr.Status == 200 {
						b, _ := stripQuery(x.Hint.URI)
						ref := get(b)
						if ref.Status == 200 && !bytes.Equal(ref.Body, hr.Body) {
							addV("C08", "reader %d: preload hint %s returned %d bytes, the part URI returns %d different bytes", ri, x.Hint.URI, len(hr.Body), len(ref.Body))
						}
					}
				case "unknown":
					r := get(fmt.Sprintf("abcdefabcdef_%s_seg%d.mp4", s, iter))
					if r.Status == 200 && len(r.Body) > 0 {
						addV("C08", "unknown URI answered 200")
					}
				case "expired":
					if lastX == nil || *lastX.MediaSeq == 0 {
						r := get(s + "_stream.m3u8")
						if x := checkPlaylist("plain", r, false); x != nil {
							lastX = x
						}
						continue
					}
					for _, sg := range lastX.Segments {
						if !sg.Gap {
							b, _ := stripQuery(sg.URI)
							if m := segRe.FindStringSubmatch(b); m != nil {
								old := strings.Replace(b, "seg"+m[3], "seg"+strconv.FormatInt(*lastX.MediaSeq-1, 10), 1)
								r := get(old)
								if r.Status == 200 && len(r.Body) > 0 && *lastX.MediaSeq-1 >= 7*int64(b2i(cfg.Variant == VariantLL)) {
									addV("C08", "expired URI %s answered 200 with %d bytes", old, len(r.Body))
								}
							}
							break
						}
					}
				}
			}
		}(ri, rs)
	}

	closeAt := plan.CloseAt
	if closeAt < 0 || closeAt >= len(sc.Ops) {
		closeAt = len(sc.Ops) - 1
	}
	for i, op := range sc.Ops {
		progress.Store(int64(2*i + 1))
		err := drv.Write(i, op)
		progress.Store(int64(2*i + 2))
		if err != nil {
			if strings.HasPrefix(err.Error(), "PANIC") {
				addV("C08", "op %d: %v", i, err)
			}
			break
		}
		if plan.PaceMicros > 0 {
			time.Sleep(time.Duration(plan.PaceMicros) * time.Microsecond)
		}
		if i == closeAt {
			break
		}
	}
	// let the readers see the final state for a moment, then close while they are running
	time.Sleep(2 * time.Millisecond)
	drv.M.Close()
	time.Sleep(time.Millisecond)
	stop.Store(true)
	done := make(chan struct{})
	go func() { wg.Wait(); close(done) }()
	select {
	case <-done:
	case <-time.After(20 * time.Second):
		addV("C07", "readers did not return within 20 s after Close")
	}
	drv.closed = true
	if left := drv.DirEntries(); len(left) > 0 {
		addV("C07", "files left in Directory after Close: %v", left)
	}
	if drv.Dir != "" {
		removeAll(drv.Dir)
	}
	res.Responses = int(responses.Load())
	res.Overlapped = int(overlapped.Load())
	return res
}

func b2i(b bool) int {
	if b {
		return 1
	}
	return 0
}

func removeAll(dir string) { _ = osRemoveAll(dir) }
