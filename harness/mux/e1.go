package mux

import (
	"bytes"
	"crypto/sha256"
	"fmt"
	"math/big"
	"net/url"
	"os"
	"regexp"
	"sort"
	"strconv"
	"strings"
	"time"

	"github.com/bluenviron/mediacommon/v2/pkg/codecs/av1"
	"github.com/bluenviron/mediacommon/v2/pkg/formats/fmp4"

	"verifharness/m3u8x"
)

// Violation is an oracle failure tagged with the property it belongs to.
type Violation struct {
	Prop string
	Msg  string
}

// E1Opts tunes the muxer-history engine.
type E1Opts struct {
	ObserveEvery  int    // observe after every n-th op (and always after a rotation); default 1
	Query         string // raw query appended to every playlist request ("" = none)
	RefetchEvery  int    // re-fetch listed URIs every n-th observation (default 3)
	ProbeUnknown  bool   // probe unknown / expired URIs
	TmpBase       string
	MaxViolations int
	NoDecode      bool // skip media decoding (long histories of C04/C18 sample it instead)
	DecodeEvery   int  // with NoDecode=false: decode every n-th completed segment (default 1)
	OnPlaylist    func(stream, text string)
	// Regularity enables the C19 oracle; the leading track must have the constant sample
	// duration SampleTicks (in its clock).
	Regularity  bool
	SampleTicks int64
	// Focus names the property being decided: violations of other properties are recorded
	// but do not stop the run, so that one defect which breaks several properties is seen by
	// the oracle of each of them.
	Focus string
}

// E1Result is the outcome of one script.
type E1Result struct {
	Fatal                    bool
	Foreign                  map[string]int
	ForeignSamples           []string
	Violations               []Violation
	Skip                     string // non-empty: scenario left the decided domain (reason)
	Completed                int
	Observed                 int
	Refetched                int
	ExpiredProbed            int
	Labels                   map[string]bool
	Decisions                map[string]int
	TargetGrew               bool
	NonMultiple              bool // a segment whose exact duration is not a multiple of 10us
	Slides                   int
	MaxParts                 int
	NonFinalParts            int
	RejectedForSize          bool
	ParamChanges             int
	UnitsDecoded             int
	PathCountMax             int
	Renditions               int
	DiskRefetchAfterFinalize int
	DeltaObserved            int // delta updates checked against the history (C04)
}

func (r *E1Result) addForeign(prop, f string, a ...any) {
	if r.Foreign == nil {
		r.Foreign = map[string]int{}
	}
	r.Foreign[prop]++
	if len(r.ForeignSamples) < 3 {
		m := fmt.Sprintf(f, a...)
		if len(m) > 300 {
			m = m[:300]
		}
		r.ForeignSamples = append(r.ForeignSamples, prop+": "+m)
	}
}

func (r *E1Result) add(prop, f string, a ...any) {
	if len(r.Violations) < 12 {
		m := fmt.Sprintf(f, a...)
		if len(m) > 1500 {
			m = m[:1500] + "…"
		}
		r.Violations = append(r.Violations, Violation{Prop: prop, Msg: m})
	}
}

// Has reports whether a violation of prop was found.
func (r *E1Result) Has(prop string) string {
	for _, v := range r.Violations {
		if v.Prop == prop {
			return v.Msg
		}
	}
	return ""
}

type fetched struct {
	hash      [32]byte
	firstObs  int
	lastObs   int
	kind      string // seg | part | init
	stream    string
	num       uint64
	body      []byte // kept for parts/segments of the last few only
	refetches int
}

type streamHist struct {
	id              string
	lastX           *m3u8x.XMedia
	lastFirst       int64
	lastLast        int64
	lastTarget      int64
	segFacts        map[int64]string // msn -> uri|durtext|gap
	partFacts       map[uint64]string
	decodedTo       int64           // highest msn decoded
	carry           map[int][]DUnit // per track id: decoded units of complete segments (running tail check)
	pos             map[int]int     // per track index: next expected unit position in the flattened model list
	listedEver      map[string]bool
	nextBase        map[int]int64 // expected BaseTime of the next fragment per track id
	lastPartTarget  int64
	lastHadNonFinal bool
	nonFinalD       int64
	haveFragSeq     bool
	lastFragSeq     uint32
}

var segRe = regexp.MustCompile(`^([0-9a-f]{12})_([a-z]+[0-9]*)_seg([0-9]+)\.(mp4|ts)$`)
var partRe = regexp.MustCompile(`^([0-9a-f]{12})_([a-z]+[0-9]*)_part([0-9]+)\.mp4$`)
var initRe = regexp.MustCompile(`^([0-9a-f]{12})_([a-z]+[0-9]*)_init\.mp4$`)

func stripQuery(u string) (string, string) {
	if i := strings.IndexByte(u, '?'); i >= 0 {
		return u[:i], u[i+1:]
	}
	return u, ""
}

// markerOf extracts (op, sub) from a payload that embeds a Marker.
func markerOf(b []byte) (int, int, bool) {
	i := bytes.IndexByte(b, 0xF1)
	for i >= 0 && i+6 < len(b) {
		if b[i+6] == 0xF2 {
			op := 0
			mul := 1
			ok := true
			for k := 1; k <= 4; k++ {
				d := int(b[i+k]) - 0x10
				if d < 0 || d >= 200 {
					ok = false
				}
				op += d * mul
				mul *= 200
			}
			if ok {
				return op, int(b[i+5]) - 0x10, true
			}
		}
		j := bytes.IndexByte(b[i+1:], 0xF1)
		if j < 0 {
			break
		}
		i += 1 + j
	}
	return 0, 0, false
}

func describe(b []byte) string {
	if op, sub, ok := markerOf(b); ok {
		return fmt.Sprintf("unit(op %d, sub %d, %d bytes)", op, sub, len(b))
	}
	if len(b) > 16 {
		b = b[:16]
	}
	return fmt.Sprintf("unknown bytes %x…", b)
}

// RunE1 executes the script against the real muxer and the model in lock step and applies
// the oracles of C01-C05, C15 (grammar of served playlists), C16, C18 and C19.
func RunE1(sc Script, opt E1Opts) *E1Result {
	res := &E1Result{Labels: map[string]bool{}}
	if opt.ObserveEvery <= 0 {
		opt.ObserveEvery = 1
	}
	if opt.RefetchEvery <= 0 {
		opt.RefetchEvery = 3
	}
	if opt.DecodeEvery <= 0 {
		opt.DecodeEvery = 1
	}
	cfg := sc.Config
	model := NewModel(cfg)
	drv, err := NewDriver(cfg, opt.TmpBase)
	if err != nil {
		res.Skip = "Start rejected the configuration: " + err.Error()
		return res
	}
	e := &e1{res: res, opt: opt, cfg: cfg, model: model, drv: drv, fetchedBy: map[string]*fetched{}, hist: map[string]*streamHist{},
		partSeg: map[string]map[uint64]int64{}, partProbed: map[string]map[uint64]bool{}, probes: map[string]*Pending{}}
	for _, s := range cfg.Streams() {
		e.hist[s] = &streamHist{id: s, lastFirst: -1, lastLast: -1, segFacts: map[int64]string{}, partFacts: map[uint64]string{}, decodedTo: -1,
			pos: map[int]int{}, listedEver: map[string]bool{}, nextBase: map[int]int64{}, carry: map[int][]DUnit{}}
	}
	defer func() {
		left := drv.Close()
		if len(left) > 0 {
			e.viol("C07", "files left in Directory after Close: %v", left)
		}
	}()

	for i, op := range sc.Ops {
		step := model.Step(i, op)
		if step.Ambiguous {
			res.Skip = "segment boundary within 1 ns of SegmentMinDuration"
			break
		}
		err := drv.Write(i, op)
		if step.ExpectError && strings.HasPrefix(step.Reason, "dts extractor") {
			// the presentation times / picture order counts of the script are not acceptable to the
			// DTS extractor: the write fails, the statement covers successful writes only
			res.Labels["dtsExtractorRejected"] = true
			break
		}
		if step.ExpectError {
			res.RejectedForSize = true
			if err == nil {
				e.viol("C18", "op %d: write would exceed SegmentMaxSize=%d but Write returned nil", i, model.MaxSize)
			}
			break // the script ends at the first failing write
		}
		if err != nil {
			if strings.HasPrefix(err.Error(), "PANIC") {
				e.viol("C08", "op %d: %v", i, err)
			} else if strings.Contains(err.Error(), "maximum segment size") {
				e.viol("C18", "op %d: Write rejected for size (%v) although the model's open segment stays within SegmentMaxSize=%d", i, err, model.MaxSize)
			} else {
				e.viol("C01", "op %d: Write failed on a well-formed sequence: %v", i, err)
			}
			break
		}
		if step.Cut || (i+1)%opt.ObserveEvery == 0 || i == len(sc.Ops)-1 {
			e.observe(i, i == len(sc.Ops)-1)
			if res.Fatal {
				break
			}
		}
	}
	res.Completed = len(model.Segs)
	res.Decisions = model.Decisions
	res.ParamChanges = model.ParamVer
	if !res.Fatal && res.Skip == "" && len(model.Segs) >= 4 {
		for _, s := range cfg.Streams() {
			if e.hist[s].lastX == nil {
				// every stream is cut at the same instants: its playlist must exist by now
				e.viol("C01", "the playlist of stream %s was never served although %d segments are complete", s, len(model.Segs))
				e.viol("C02", "the playlist of stream %s was never served although %d segments are complete: streams are not cut together", s, len(model.Segs))
				e.viol("C04", "the playlist of stream %s was never served although %d segments are complete: streams do not expose the same sequence numbers", s, len(model.Segs))
			}
		}
	}
	return res
}

// viol records a violation. It returns true when the caller must stop what it is doing:
// always when no focus property is set or the violation belongs to the focus property
// (then the whole run stops); for violations of other properties only the current check
// function is left when hard is requested by the caller (see violHard).
func (e *e1) viol(prop, f string, a ...any) bool {
	if e.opt.Focus == "" || prop == e.opt.Focus {
		e.res.add(prop, f, a...)
		e.res.Fatal = true
		return true
	}
	e.res.addForeign(prop, f, a...)
	return false
}

type e1 struct {
	res           *E1Result
	opt           E1Opts
	cfg           Config
	model         *Model
	drv           *Driver
	prefix        string
	fetchedBy     map[string]*fetched
	hist          map[string]*streamHist
	obsN          int
	everAvailable int
	initParamSeen map[string]int
	leadPartDur   map[uint64]int64            // part number -> duration (ns) from the leading stream's decoded media
	partSeg       map[string]map[uint64]int64 // stream -> part number -> msn of its parent segment
	partProbed    map[string]map[uint64]bool
	probes        map[string]*Pending
}

func (e *e1) playlistPath(stream string) string {
	p := stream + "_stream.m3u8"
	if e.opt.Query != "" {
		p += "?" + e.opt.Query
	}
	return p
}

func ctOK(kind string, variant int, h map[string][]string) bool {
	ct := ""
	if v := h["Content-Type"]; len(v) > 0 {
		ct = v[0]
	}
	switch kind {
	case "seg":
		if variant == VariantMPEGTS {
			return strings.EqualFold(ct, "video/MP2T")
		}
		return ct == "video/mp4"
	case "part", "init":
		return ct == "video/mp4"
	case "playlist":
		return strings.EqualFold(ct, "application/vnd.apple.mpegurl") || strings.EqualFold(ct, "application/x-mpegURL") || strings.EqualFold(ct, "audio/mpegurl")
	}
	return true
}

// fetch gets a listed URI and checks status, type and immutability (C05).
func (e *e1) fetch(uri, kind, stream string, num uint64, force bool) *fetched {
	base, q := stripQuery(uri)
	_ = q
	f := e.fetchedBy[base]
	if f != nil && !force {
		f.lastObs = e.obsN
		return f
	}
	r := e.drv.GetDirect(uri)
	if r.Panic != "" {
		e.viol("C08", "panic while serving %s: %s", uri, r.Panic)
		return nil
	}
	if r.Status != 200 {
		e.viol("C05", "listed %s URI %s answered status %d (observation %d)", kind, uri, r.Status, e.obsN)
		return nil
	}
	if len(r.Body) == 0 {
		e.viol("C05", "listed %s URI %s answered 200 with an empty body", kind, uri)
		return nil
	}
	if !ctOK(kind, e.cfg.Variant, r.Header) {
		e.viol("C05", "listed %s URI %s served with content type %q", kind, uri, r.Header["Content-Type"])
	}
	h := sha256.Sum256(r.Body)
	if f != nil {
		f.refetches++
		e.res.Refetched++
		if e.cfg.Disk && kind != "init" {
			e.res.DiskRefetchAfterFinalize++
		}
		if f.hash != h && kind != "init" {
			e.viol("C05", "%s URI %s returned different bytes at observation %d than when first listed (observation %d): %d vs %d bytes", kind, base, e.obsN, f.firstObs, len(r.Body), len(f.body))
			f.hash = h
			f.body = r.Body
		}
		f.lastObs = e.obsN
		if kind == "init" {
			f.hash = h
			f.body = r.Body
		}
		return f
	}
	f = &fetched{hash: h, firstObs: e.obsN, lastObs: e.obsN, kind: kind, stream: stream, num: num, body: r.Body}
	e.fetchedBy[base] = f
	return f
}

func ratNS(ticks, rate int64) *big.Rat {
	return new(big.Rat).Mul(big.NewRat(ticks, rate), big.NewRat(1_000_000_000, 1))
}

func absI(a int64) int64 {
	if a < 0 {
		return -a
	}
	return a
}

// observe fetches every playlist and applies the oracles.
func (e *e1) observe(opIdx int, final bool) {
	e.obsN++
	res := e.res
	if !e.model.HasContent() {
		return
	}
	type obs struct {
		x    *m3u8x.XMedia
		text string
	}
	all := map[string]*obs{}
	for _, s := range e.cfg.Streams() {
		var r Resp
		h := e.hist[s]
		if h.lastX != nil {
			r = e.drv.GetDirect(e.playlistPath(s))
		} else {
			// one outstanding probe per stream until the playlist exists
			if e.probes[s] == nil {
				e.probes[s] = e.drv.Go(e.playlistPath(s))
			}
			done, _ := e.probes[s].Settle(20 * time.Second)
			if !done {
				continue // not available yet (blocked): nothing to observe
			}
			r = e.probes[s].Resp()
			e.probes[s] = nil
		}
		if r.Panic != "" {
			if e.viol("C08", "panic while serving the media playlist of %s: %s", s, r.Panic) {
				return
			}
			continue
		}
		if r.Status != 200 {
			if e.viol("C05", "media playlist of %s answered status %d", s, r.Status) {
				return
			}
			continue
		}
		if !ctOK("playlist", e.cfg.Variant, r.Header) {
			e.viol("C05", "media playlist of %s served with content type %q", s, r.Header["Content-Type"])
		}
		text := string(r.Body)
		if e.opt.OnPlaylist != nil {
			e.opt.OnPlaylist(s, text)
		}
		if errs := m3u8x.Strict(text); len(errs) > 0 {
			if e.viol("C15", "playlist served for %s is not grammatical: %s\n%s", s, strings.Join(errs, "; "), text) {
				return
			}
		}
		x, err := m3u8x.ParseMedia(text)
		if err != nil {
			if e.viol("C15", "playlist served for %s cannot be read: %v\n%s", s, err, text) {
				return
			}
			continue
		}
		all[s] = &obs{x: x, text: text}
		e.everAvailable++
	}
	if len(all) == 0 {
		return
	}
	res.Observed++
	lead := e.cfg.LeadingStream()
	// the leading stream first: part durations measured from its media are the reference
	order := []string{}
	if _, ok := all[lead]; ok {
		order = append(order, lead)
	}
	for _, s := range e.cfg.Streams() {
		if s != lead {
			if _, ok := all[s]; ok {
				order = append(order, s)
			}
		}
	}
	for _, s := range order {
		e.checkPlaylist(s, all[s].x, all[s].text, final)
		if res.Fatal {
			return
		}
		if e.cfg.Variant == VariantLL && e.obsN%2 == 0 {
			e.checkDelta(s, all[s].x)
			if res.Fatal {
				return
			}
		}
	}
	// all streams expose the same sequence numbers and durations at the same time (C04, C02)
	if lo, ok := all[lead]; ok {
		for _, s := range order {
			if s == lead {
				continue
			}
			a, b := lo.x, all[s].x
			if a.MediaSeq == nil || b.MediaSeq == nil || a.Target == nil || b.Target == nil {
				continue
			}
			if *a.MediaSeq != *b.MediaSeq || len(a.Segments) != len(b.Segments) {
				if e.viol("C04", "streams %s and %s list different windows at the same instant: msn %d (+%d) vs %d (+%d)", lead, s, *a.MediaSeq, len(a.Segments), *b.MediaSeq, len(b.Segments)) {
					return
				}
				continue
			}
			for k := range a.Segments {
				if a.Segments[k].DurText != b.Segments[k].DurText {
					if e.viol("C04", "streams %s and %s list different durations for msn %d: %s vs %s", lead, s, *a.MediaSeq+int64(k), a.Segments[k].DurText, b.Segments[k].DurText) {
						return
					}
				}
				da, db := a.Segments[k].DateTimeText, b.Segments[k].DateTimeText
				if da != "" && db != "" && da != db {
					if e.viol("C02", "streams %s and %s were not cut at the same instant: msn %d has date-time %s vs %s", lead, s, *a.MediaSeq+int64(k), da, db) {
						return
					}
				}
			}
			if *a.Target != *b.Target {
				if e.viol("C03", "streams %s and %s announce different target durations %d vs %d", lead, s, *a.Target, *b.Target) {
					return
				}
			}
		}
	}
	e.checkMultivariant()
	e.checkRetention(all != nil)
}

func (e *e1) checkPlaylist(s string, x *m3u8x.XMedia, text string, final bool) {
	res := e.res
	cfg := e.cfg
	h := e.hist[s]
	model := e.model
	ll := cfg.Variant == VariantLL
	bad := func(prop, f string, a ...any) bool {
		return e.viol(prop, "stream %s, observation %d: %s\n%s", s, e.obsN, fmt.Sprintf(f, a...), text)
	}
	if x.MediaSeq == nil || x.Target == nil || x.Version == nil {
		bad("C15", "playlist lacks MEDIA-SEQUENCE / TARGETDURATION / VERSION")
		return
	}
	if len(x.Segments) == 0 {
		bad("C04", "playlist lists no segment")
		return
	}
	first := *x.MediaSeq
	last := first + int64(len(x.Segments)) - 1
	// ---- C04 / C18: window ----
	if len(x.Segments) > cfg.SegmentCount {
		if bad("C04", "%d segments listed, SegmentCount is %d", len(x.Segments), cfg.SegmentCount) {
			return
		}
	}
	if first < h.lastFirst {
		if bad("C04", "EXT-X-MEDIA-SEQUENCE decreased from %d to %d", h.lastFirst, first) {
			return
		}
	}
	if last < h.lastLast {
		if bad("C04", "last listed media sequence number decreased from %d to %d", h.lastLast, last) {
			return
		}
	}
	if h.lastFirst >= 0 && first > h.lastFirst {
		res.Slides += int(first - h.lastFirst)
	}
	wantFirst, wantN := model.Window()
	if uint64(first) != wantFirst || len(x.Segments) != wantN {
		if bad("C04", "window is msn %d..%d, expected %d..%d after %d completed segments (SegmentCount %d)", first, last, wantFirst, int(wantFirst)+wantN-1, len(model.Segs), cfg.SegmentCount) {
			return
		}
	}
	h.lastFirst, h.lastLast = first, last

	mapURI := ""
	if cfg.Variant != VariantMPEGTS {
		if x.MapURI == nil {
			if bad("C05", "fMP4 playlist without EXT-X-MAP") {
				return
			}
		} else {
			mapURI = *x.MapURI
		}
	}

	var prevPart int64 = -1
	allParts := []m3u8x.XPart{}
	checkPartURI := func(p m3u8x.XPart) (uint64, bool) {
		base, q := stripQuery(p.URI)
		if ll && strings.Contains(q, "_HLS_") {
			if bad("C06", "part URI %s carries a _HLS_ directive", p.URI) {
				return 0, false
			}
		}
		m := partRe.FindStringSubmatch(base)
		if m == nil || m[2] != s {
			bad("C04", "part URI %q does not name a part of stream %s", p.URI, s)
			return 0, false
		}
		n, _ := strconv.ParseUint(m[3], 10, 64)
		if prevPart >= 0 && int64(n) != prevPart+1 {
			if bad("C04", "part numbers do not increase by one: part%d follows part%d", n, prevPart) {
				return 0, false
			}
		}
		prevPart = int64(n)
		fact := fmt.Sprintf("%s|%s|%v", base, p.DurText, p.Independent)
		if old, ok := h.partFacts[n]; ok && old != fact {
			if bad("C04", "part %d changed between playlists: %s -> %s", n, old, fact) {
				return 0, false
			}
		}
		h.partFacts[n] = fact
		if e.prefix == "" {
			e.prefix = m[1]
		}
		return n, true
	}

	maxRounded := int64(0)
	for k, seg := range x.Segments {
		msn := first + int64(k)
		fact := fmt.Sprintf("%s|%s|%v", func() string { b, _ := stripQuery(seg.URI); return b }(), seg.DurText, seg.Gap)
		if old, ok := h.segFacts[msn]; ok && old != fact {
			if bad("C04", "media sequence number %d changed between playlists: %s -> %s", msn, old, fact) {
				return
			}
		}
		h.segFacts[msn] = fact
		isGap := ll && uint64(msn) < 7
		if isGap || model.SegByID(uint64(msn)) == nil {
			// TARGETDURATION >= EXTINF rounded to nearest; from the text only, so a tie may go either way
			r := (seg.DurationNS + 499_999_999) / 1_000_000_000
			if r > *x.Target {
				if bad("C03", "EXTINF %s of msn %d rounds to %d > TARGETDURATION %d", seg.DurText, msn, r, *x.Target) {
					return
				}
			}
		}
		if seg.Gap != isGap {
			if bad("C04", "msn %d gap flag is %v, expected %v", msn, seg.Gap, isGap) {
				return
			}
		}
		if isGap {
			if len(seg.Parts) > 0 {
				bad("C04", "gap entry msn %d lists parts", msn)
			}
			continue
		}
		base, q := stripQuery(seg.URI)
		if ll && strings.Contains(q, "_HLS_") {
			if bad("C06", "segment URI %s carries a _HLS_ directive", seg.URI) {
				return
			}
		}
		if !sameQuery(q, filterHLS(e.opt.Query)) && !(!ll && sameQuery(q, e.opt.Query)) {
			if bad("C06", "segment URI %s does not carry the request's query %q", seg.URI, e.opt.Query) {
				return
			}
		}
		m := segRe.FindStringSubmatch(base)
		if m == nil || m[2] != s {
			if bad("C04", "segment URI %q does not name a segment of stream %s", seg.URI, s) {
				return
			}
			continue
		}
		if e.prefix == "" {
			e.prefix = m[1]
		}
		n, _ := strconv.ParseUint(m[3], 10, 64)
		if int64(n) != msn {
			if bad("C04", "segment URI %s is listed as media sequence number %d", base, msn) {
				return
			}
		}
		ms := model.SegByID(uint64(msn))
		if ms == nil {
			if bad("C04", "msn %d listed but the model has only %d complete segments", msn, len(model.Segs)) {
				return
			}
			continue
		}
		// ---- C03: target duration: EXTINF rounded to the nearest integer (half up). The exact
		// duration decides; when the boundaries are not whole nanoseconds the muxer may see up to
		// 1 ns less, which matters only at an exact tie.
		{
			ex := ratNS(ms.EndTicks-ms.StartTicks, ms.Rate)
			if !(nsExact(ms.StartTicks, ms.Rate) && nsExact(ms.EndTicks, ms.Rate)) {
				ex.Sub(ex, big.NewRat(1, 1))
			}
			ex.Add(ex, big.NewRat(500_000_000, 1))
			r := new(big.Int).Quo(ex.Num(), new(big.Int).Mul(ex.Denom(), big.NewInt(1_000_000_000))).Int64()
			if r > maxRounded {
				maxRounded = r
			}
			if r > *x.Target {
				if bad("C03", "segment msn %d lasts %s s, which rounds to %d > TARGETDURATION %d", msn, seg.DurText, r, *x.Target) {
					return
				}
			}
		}
		// ---- C03: EXTINF, date-time ----
		exact := ratNS(ms.EndTicks-ms.StartTicks, ms.Rate)
		diff := new(big.Rat).Sub(exact, big.NewRat(seg.DurationNS, 1))
		if diff.Abs(diff).Cmp(big.NewRat(10_001, 1)) > 0 {
			if bad("C03", "EXTINF of msn %d is %s, the segment spans %s s of the leading track (ticks %d..%d at %d Hz)", msn, seg.DurText, exact.FloatString(9), ms.StartTicks, ms.EndTicks, ms.Rate) {
				return
			}
		}
		if new(big.Int).Mod(new(big.Int).Mul(big.NewInt(ms.EndTicks-ms.StartTicks), big.NewInt(100_000)), big.NewInt(ms.Rate)).Sign() != 0 {
			res.NonMultiple = true
		}
		if seg.DateTime != nil {
			d := ms.NTP.Sub(*seg.DateTime)
			if d < 0 || d >= time.Millisecond {
				if bad("C03", "EXT-X-PROGRAM-DATE-TIME of msn %d is %s, the segment's first unit was written with %s", msn, seg.DateTimeText, ms.NTP.Format(time.RFC3339Nano)) {
					return
				}
			}
		} else if cfg.Variant == VariantMPEGTS {
			if bad("C03", "msn %d has no EXT-X-PROGRAM-DATE-TIME", msn) {
				return
			}
		}
		// ---- parts placement ----
		if len(seg.Parts) > 0 {
			if !ll {
				if bad("C04", "parts listed in a non Low-Latency playlist") {
					return
				}
			}
			if last-msn >= 2 {
				if bad("C04", "parts listed under msn %d, which is not one of the last two segments (last is %d)", msn, last) {
					return
				}
			}
		} else if ll && last-msn < 2 {
			if bad("C04", "no parts listed under msn %d although it is one of the last two segments", msn) {
				return
			}
		}
		var sum int64
		var partBytes [][]byte
		partsBroken := false
		for pi, p := range seg.Parts {
			n, ok := checkPartURI(p)
			if !ok {
				if res.Fatal {
					return
				}
				partsBroken = true
				continue
			}
			allParts = append(allParts, p)
			if e.partSeg[s] == nil {
				e.partSeg[s] = map[uint64]int64{}
			}
			if !e.partProbed[s][n] {
				e.partSeg[s][n] = msn
			}
			sum += p.DurationNS
			pf := e.fetch(p.URI, "part", s, n, e.obsN%e.opt.RefetchEvery == 0 || final)
			if pf == nil {
				if res.Fatal {
					return
				}
				partsBroken = true
				continue
			}
			partBytes = append(partBytes, pf.body)
			if !e.checkPartMedia(s, p, n, pf, pi == len(seg.Parts)-1, bad) {
				if res.Fatal {
					return
				}
				partsBroken = true
			}
		}
		if len(seg.Parts) > 0 && !partsBroken {
			if absI(sum-seg.DurationNS) > int64(len(seg.Parts)+1)*10_000 {
				if bad("C03", "part durations of msn %d add up to %d ns, EXTINF is %s", msn, sum, seg.DurText) {
					return
				}
			}
			if len(seg.Parts) > res.MaxParts {
				res.MaxParts = len(seg.Parts)
			}
		}
		// ---- C05: segment fetch ----
		sf := e.fetch(seg.URI, "seg", s, n, e.obsN%e.opt.RefetchEvery == 0 || final)
		if sf == nil {
			if res.Fatal {
				return
			}
			continue
		}
		if len(partBytes) > 0 && !partsBroken {
			if !bytes.Equal(sf.body, bytes.Join(partBytes, nil)) {
				if bad("C05", "segment msn %d (%d bytes) is not the concatenation of its %d parts (%d bytes)", msn, len(sf.body), len(partBytes), len(bytes.Join(partBytes, nil))) {
					return
				}
			}
		}
		// ---- C01/C02: decode the segment once ----
		if msn > h.decodedTo {
			if msn != h.decodedTo+1 && h.decodedTo >= 0 {
				// segments that were never observed (window moved faster than we looked): account for them
				for skip := h.decodedTo + 1; skip < msn; skip++ {
					e.skipSegment(h, uint64(skip))
				}
			}
			if h.decodedTo < 0 && uint64(msn) > model.FirstID() {
				for skip := int64(model.FirstID()); skip < msn; skip++ {
					e.skipSegment(h, uint64(skip))
				}
			}
			h.decodedTo = msn
			if !e.opt.NoDecode && (int(msn)%e.opt.DecodeEvery == 0) {
				if !e.checkSegmentMedia(s, uint64(msn), ms, sf.body, bad) && res.Fatal {
					return
				}
			} else {
				e.skipSegment(h, uint64(msn))
			}
		}
	}
	// ---- trailing parts / preload hint (LL) ----
	if !ll && (len(x.Parts) > 0 || x.Hint != nil || x.PartTargetNS != nil || x.HasServerCtl) {
		if bad("C04", "Low-Latency tags in a non Low-Latency playlist") {
			return
		}
	}
	if ll {
		var openBodies [][]byte
		for _, p := range x.Parts {
			n, ok := checkPartURI(p)
			if !ok {
				if res.Fatal {
					return
				}
				continue
			}
			allParts = append(allParts, p)
			pf := e.fetch(p.URI, "part", s, n, e.obsN%e.opt.RefetchEvery == 0 || final)
			if pf == nil {
				if res.Fatal {
					return
				}
				continue
			}
			if !e.checkPartMedia(s, p, n, pf, false, bad) && res.Fatal {
				return
			}
			openBodies = append(openBodies, pf.body)
		}
		if len(openBodies) == len(x.Parts) && len(openBodies) > 0 && !e.opt.NoDecode {
			if !e.checkOpenParts(s, openBodies, bad) && res.Fatal {
				return
			}
		}
		if len(x.Parts) > res.MaxParts {
			res.MaxParts = len(x.Parts)
		}
	}
	if ll && x.Hint == nil {
		if bad("C04", "Low-Latency playlist without EXT-X-PRELOAD-HINT") {
			return
		}
	}
	if ll && x.Hint != nil {
		hb, hq := stripQuery(x.Hint.URI)
		if strings.Contains(hq, "_HLS_") {
			if bad("C06", "preload hint URI %s carries a _HLS_ directive", x.Hint.URI) {
				return
			}
		}
		hm := partRe.FindStringSubmatch(hb)
		if hm == nil || hm[2] != s || x.Hint.Type != "PART" {
			if bad("C04", "preload hint %q does not name a part of stream %s", x.Hint.URI, s) {
				return
			}
		} else {
			hn, _ := strconv.ParseInt(hm[3], 10, 64)
			if prevPart >= 0 && hn != prevPart+1 {
				if bad("C04", "preload hint names part%d, the last listed part is part%d", hn, prevPart) {
					return
				}
			}
		}
	}
	if ll && (x.PartTargetNS == nil || !x.HasServerCtl) {
		if bad("C04", "Low-Latency playlist without PART-INF / SERVER-CONTROL") {
			return
		}
	}
	if ll && x.PartTargetNS != nil {
		pt := *x.PartTargetNS
		for _, p := range allParts {
			if p.DurationNS > pt+10_000 {
				if bad("C03", "part %s lasts %s, PART-TARGET is %s", p.URI, p.DurText, x.PartTargetTxt) {
					return
				}
			}
		}
		if a, ok := m3u8x.Get(x.ServerControl, "PART-HOLD-BACK"); ok {
			v, _ := m3u8x.ParseDecimalNS(a.Val)
			if v+10_000 < 2*pt {
				if bad("C03", "PART-HOLD-BACK %s is less than twice PART-TARGET %s", a.Val, x.PartTargetTxt) {
					return
				}
			}
		} else {
			if bad("C03", "SERVER-CONTROL without PART-HOLD-BACK") {
				return
			}
		}
		if a, ok := m3u8x.Get(x.ServerControl, "CAN-SKIP-UNTIL"); ok {
			v, _ := m3u8x.ParseDecimalNS(a.Val)
			if v+10_000 < 6*(*x.Target)*1_000_000_000 {
				if bad("C03", "CAN-SKIP-UNTIL %s is less than six times TARGETDURATION %d", a.Val, *x.Target) {
					return
				}
			}
		}
		if a, ok := m3u8x.Get(x.ServerControl, "CAN-BLOCK-RELOAD"); !ok || a.Val != "YES" {
			if bad("C06", "Low-Latency playlist does not announce CAN-BLOCK-RELOAD=YES") {
				return
			}
		}
	}
	// ---- C19: regular parts ----
	if ll && e.opt.Regularity && s == cfg.LeadingStream() && x.PartTargetNS != nil {
		var nonFinal []m3u8x.XPart
		for _, seg := range x.Segments {
			if len(seg.Parts) > 1 {
				nonFinal = append(nonFinal, seg.Parts[:len(seg.Parts)-1]...)
			}
		}
		nonFinal = append(nonFinal, x.Parts...)
		rate := int64(cfg.Tracks[cfg.LeadingTrack()].ClockRate())
		sampleNS := e.opt.SampleTicks * 1_000_000_000 / rate
		pt := *x.PartTargetNS
		for _, p := range nonFinal {
			res.NonFinalParts++
			d := p.DurationNS
			if h.nonFinalD == 0 {
				h.nonFinalD = d
			}
			if absI(d-h.nonFinalD) > 10_000 {
				if bad("C19", "non-final part %s lasts %s, earlier non-final parts lasted %d ns (constant sample duration %d ticks)", p.URI, p.DurText, h.nonFinalD, e.opt.SampleTicks) {
					return
				}
			}
			if d > pt+10_000 || float64(d)+10_000 < 0.85*float64(pt) {
				if bad("C19", "non-final part %s lasts %s, outside 85%%..100%% of PART-TARGET %s", p.URI, p.DurText, x.PartTargetTxt) {
					return
				}
			}
			if d+10_000 < cfg.PartMinDuration {
				if bad("C19", "non-final part %s lasts %s, less than PartMinDuration %d ns", p.URI, p.DurText, cfg.PartMinDuration) {
					return
				}
			}
			if lim := 2*maxI64(cfg.PartMinDuration, sampleNS) + sampleNS; d-10_000 >= lim {
				if bad("C19", "non-final part %s lasts %s, not less than 2*max(PartMinDuration, sample) + sample = %d ns", p.URI, p.DurText, lim) {
					return
				}
			}
		}
		if len(nonFinal) > 0 {
			if h.lastHadNonFinal && h.lastPartTarget != pt {
				if bad("C19", "PART-TARGET changed from %d to %d ns between two playlists that both list a non-final part", h.lastPartTarget, pt) {
					return
				}
			}
			h.lastPartTarget = pt
		}
		h.lastHadNonFinal = len(nonFinal) > 0
	}
	// ---- C03: target duration never decreases ----
	if *x.Target < h.lastTarget {
		if bad("C03", "TARGETDURATION decreased from %d to %d", h.lastTarget, *x.Target) {
			return
		}
	}
	if h.lastTarget > 0 && *x.Target > h.lastTarget {
		res.TargetGrew = true
	}
	h.lastTarget = *x.Target
	// ---- init ----
	if mapURI != "" {
		if !e.checkInit(s, mapURI, bad) && res.Fatal {
			return
		}
	}
	h.lastX = x
	// ---- expired URIs no longer resolve (C05 / C18) ----
	if e.opt.ProbeUnknown {
		e.probe(s, x, bad)
	}
}

// sameQuery compares two raw queries as key/value multisets (the muxer may re-encode them).
func sameQuery(a, b string) bool {
	qa, ea := url.ParseQuery(a)
	qb, eb := url.ParseQuery(b)
	if ea != nil || eb != nil {
		return a == b
	}
	return qa.Encode() == qb.Encode()
}

func filterHLS(q string) string {
	if q == "" {
		return ""
	}
	var keep []string
	for _, kv := range strings.Split(q, "&") {
		if !strings.HasPrefix(kv, "_HLS_") {
			keep = append(keep, kv)
		}
	}
	return strings.Join(keep, "&")
}

// skipSegment advances the expected-unit cursors over a segment that is not decoded.
func (e *e1) skipSegment(h *streamHist, id uint64) {
	ms := e.model.SegByID(id)
	if ms == nil {
		return
	}
	for ti := range e.cfg.Tracks {
		st, _ := e.cfg.StreamOf(ti)
		if st != h.id {
			continue
		}
		h.pos[ti] += 0 // cursors are per segment; nothing to carry
	}
	for tid := range h.nextBase {
		delete(h.nextBase, tid)
	}
	h.haveFragSeq = false
}

// tracksOfStream lists the track indexes carried by stream s, in order.
func (e *e1) tracksOfStream(s string) []int {
	var out []int
	for ti := range e.cfg.Tracks {
		if st, _ := e.cfg.StreamOf(ti); st == s {
			out = append(out, ti)
		}
	}
	return out
}

// checkSegmentMedia decodes a complete segment and compares it with the model (C01, C02).
func (e *e1) checkSegmentMedia(s string, id uint64, ms *MSeg, body []byte, bad func(string, string, ...any) bool) bool {
	cfg := e.cfg
	h := e.hist[s]
	tracks := e.tracksOfStream(s)
	lead := cfg.LeadingTrack()
	if cfg.Variant == VariantMPEGTS {
		info, units, err := DecodeTS(body)
		if err != nil {
			bad("C02", "segment %d is not independently decodable MPEG-TS: %v", id, err)
			return false
		}
		if len(info.DecodeErrs) > 0 {
			if bad("C01", "segment %d: MPEG-TS decode errors: %v", id, info.DecodeErrs) {
				return false
			}
		}
		if !info.PATFirst {
			if bad("C02", "segment %d does not start with PAT and PMT", id) {
				return false
			}
		}
		if len(info.Codecs) != len(cfg.Tracks) {
			if bad("C02", "segment %d declares %d tracks, the muxer has %d", id, len(info.Codecs), len(cfg.Tracks)) {
				return false
			}
		}
		per := map[int][]DUnit{}
		firstLeadSeen := false
		for _, u := range units {
			per[u.TrackID-1] = append(per[u.TrackID-1], u)
			if u.TrackID-1 == lead && !firstLeadSeen {
				firstLeadSeen = true
			}
		}
		for _, ti := range tracks {
			want := ms.Units[ti]
			got := per[ti]
			e.res.UnitsDecoded += len(got)
			for k := 0; k < len(want) || k < len(got); k++ {
				if k >= len(got) {
					if bad("C01", "segment %d track %d: unit %d of %d missing: %s", id, ti, k, len(want), describe(bytes.Join(want[k].Parts, nil))) {
						return false
					}
					break
				}
				if k >= len(want) {
					prop := "C01"
					if ti == lead {
						prop = "C02"
					}
					if bad(prop, "segment %d track %d holds %d units, expected %d; extra: %s", id, ti, len(got), len(want), describe(bytes.Join(got[k].Parts, nil))) {
						return false
					}
					break
				}
				w, g := want[k], got[k]
				if len(w.Parts) != len(g.Parts) || !bytes.Equal(bytes.Join(w.Parts, []byte{0xff, 0, 0xff}), bytes.Join(g.Parts, []byte{0xff, 0, 0xff})) {
					prop := "C01"
					if k == 0 && ti == lead {
						prop = "C02"
					}
					if bad(prop, "segment %d track %d unit %d: got %s (%d parts), expected %s (%d parts)", id, ti, k, describe(bytes.Join(g.Parts, nil)), len(g.Parts), describe(bytes.Join(w.Parts, nil)), len(w.Parts)) {
						return false
					}
				}
				rate := int64(cfg.Tracks[ti].ClockRate())
				wd := truncDiv(w.DTS*90000, rate)
				wp := truncDiv((w.DTS+w.PTSOff)*90000, rate)
				// a time stamp whose 90 kHz value is a whole number must come out exactly (floor,
				// round and ceil agree there); otherwise one tick of rounding freedom
				tol := int64(0)
				if rate != 90000 && !w.Exact90 {
					tol = 1
				}
				if absI(mod33(g.DTS)-mod33(wd)) > tol || absI(mod33(g.DTS+g.PTSOff)-mod33(wp)) > tol {
					if bad("C01", "segment %d track %d unit %d (%s): dts/pts %d/%d, expected %d/%d (90 kHz, mod 2^33)", id, ti, k, describe(bytes.Join(w.Parts, nil)), g.DTS, g.DTS+g.PTSOff, mod33(wd), mod33(wp)) {
						return false
					}
				}
			}
		}
		// C02: first leading unit is random access
		if cfg.Tracks[lead].IsVideo() {
			got := per[lead]
			if len(got) == 0 {
				if bad("C02", "segment %d holds no unit of the leading track", id) {
					return false
				}
			}
			idr := false
			for _, n := range got[0].Parts {
				if len(n) > 0 && n[0]&0x1f == 5 {
					idr = true
				}
			}
			if !idr {
				if bad("C02", "segment %d does not begin with a random-access unit of the leading track", id) {
					return false
				}
			}
		}
		return true
	}

	frags, units, err := DecodeFMP4(body)
	if err != nil {
		bad("C01", "segment %d does not decode as fMP4: %v", id, err)
		return false
	}
	if len(frags) == 0 { // hard
		if bad("C01", "segment %d holds no fragment", id) {
			return false
		}
	}
	per := map[int][]DUnit{}
	for _, u := range units {
		per[u.TrackID] = append(per[u.TrackID], u)
	}
	// fragment sequence numbers run through the whole stream (C05: equal to the part numbers)
	for _, f := range frags {
		if h.haveFragSeq && f.Seq != h.lastFragSeq+1 {
			if bad("C05", "segment %d: fragment sequence number %d follows %d", id, f.Seq, h.lastFragSeq) {
				return false
			}
		}
		h.haveFragSeq, h.lastFragSeq = true, f.Seq
	}
	// contiguous base times across fragments (and across segments, tracked per stream)
	for _, f := range frags {
		for _, ft := range f.Tracks {
			if nb, ok := h.nextBase[ft.ID]; ok && nb != int64(ft.BaseTime) {
				if bad("C01", "segment %d fragment %d track %d: base time %d, previous fragment ended at %d", id, f.Seq, ft.ID, ft.BaseTime, nb) {
					return false
				}
			}
			h.nextBase[ft.ID] = int64(ft.BaseTime) + int64(ft.DurSum)
		}
	}
	for _, ti := range tracks {
		_, tid := cfg.StreamOf(ti)
		want := ms.Units[ti]
		got := per[tid]
		e.res.UnitsDecoded += len(got)
		for k := 0; k < len(want) || k < len(got); k++ {
			if k >= len(got) {
				if bad("C01", "segment %d track %d: unit %d of %d missing: %s", id, ti, k, len(want), describe(want[k].Payload)) {
					return false
				}
				break
			}
			if k >= len(want) {
				prop := "C01"
				if ti == lead {
					prop = "C02"
				}
				if bad(prop, "segment %d track %d holds %d units, expected %d; extra: %s", id, ti, len(got), len(want), describe(got[k].Payload)) {
					return false
				}
				break
			}
			w, g := want[k], got[k]
			if !bytes.Equal(w.Payload, g.Payload) {
				prop := "C01"
				if k == 0 && ti == lead {
					prop = "C02"
				}
				if bad(prop, "segment %d track %d unit %d: got %s, expected %s", id, ti, k, describe(g.Payload), describe(w.Payload)) {
					return false
				}
			}
			if g.DTS != w.DTS || g.PTSOff != w.PTSOff || g.Dur != w.Dur || g.Sync != w.Sync {
				if bad("C01", "segment %d track %d unit %d (%s): dts/ptsoff/dur/sync %d/%d/%d/%v, expected %d/%d/%d/%v", id, ti, k, describe(w.Payload), g.DTS, g.PTSOff, g.Dur, g.Sync, w.DTS, w.PTSOff, w.Dur, w.Sync) {
					return false
				}
			}
		}
	}
	for tid := range per {
		found := false
		for _, ti := range tracks {
			if _, t := cfg.StreamOf(ti); t == tid {
				found = true
			}
		}
		if !found {
			if bad("C01", "segment %d holds samples of unknown track id %d", id, tid) {
				return false
			}
		}
	}
	if s == cfg.LeadingStream() {
		_, ltid := cfg.StreamOf(lead)
		got := per[ltid]
		if len(got) == 0 {
			if bad("C02", "segment %d holds no unit of the leading track", id) {
				return false
			}
		}
		if !got[0].Sync {
			if bad("C02", "segment %d does not begin with a random-access unit of the leading track (%s)", id, describe(got[0].Payload)) {
				return false
			}
		}
	}
	return true
}

func truncDiv(a, b int64) int64 {
	return a / b
}

func mod33(v int64) int64 {
	return ((v % (1 << 33)) + (1 << 33)) % (1 << 33)
}

// checkPartMedia decodes a part: sequence number, duration against the media (C03, C05).
func (e *e1) checkPartMedia(s string, p m3u8x.XPart, n uint64, pf *fetched, lastOfSegment bool, bad func(string, string, ...any) bool) bool {
	if pf.refetches > 0 && pf.kind == "part" && pf.body == nil {
		return true
	}
	frags, units, err := DecodeFMP4(pf.body)
	if err != nil {
		bad("C01", "part %d does not decode as fMP4: %v", n, err)
		return false
	}
	if len(frags) != 1 {
		bad("C05", "part %d holds %d fragments", n, len(frags))
		return false
	}
	if uint64(frags[0].Seq) != n&0xffffffff {
		if bad("C05", "part %d carries fragment sequence number %d", n, frags[0].Seq) {
			return false
		}
	}
	lead := e.cfg.LeadingTrack()
	ls, ltid := e.cfg.StreamOf(lead)
	if e.leadPartDur == nil {
		e.leadPartDur = map[uint64]int64{}
	}
	if s == ls {
		var sum int64
		indep := false
		first := true
		for _, u := range units {
			if u.TrackID == ltid {
				sum += u.Dur
				if u.Sync && first {
					indep = true
				}
				if u.Sync {
					indep = true
				}
				first = false
			}
		}
		rate := int64(e.cfg.Tracks[lead].ClockRate())
		exact := ratNS(sum, rate)
		d := new(big.Rat).Sub(exact, big.NewRat(p.DurationNS, 1))
		if d.Abs(d).Cmp(big.NewRat(10_002, 1)) > 0 {
			if bad("C03", "part %d DURATION is %s, its media spans %s s of the leading track", n, p.DurText, exact.FloatString(9)) {
				return false
			}
		}
		e.leadPartDur[n] = p.DurationNS
		_ = indep
	} else if d, ok := e.leadPartDur[n]; ok {
		if absI(d-p.DurationNS) > 10_000 {
			if bad("C03", "part %d DURATION is %s in stream %s but %d ns in the leading stream", n, p.DurText, s, d) {
				return false
			}
		}
	}
	return true
}

// checkInit fetches and checks the init file (C02 (4), C05).
func (e *e1) checkInit(s, mapURI string, bad func(string, string, ...any) bool) bool {
	cfg := e.cfg
	base, q := stripQuery(mapURI)
	if e.cfg.Variant == VariantLL && strings.Contains(q, "_HLS_") {
		if bad("C06", "EXT-X-MAP URI %s carries a _HLS_ directive", mapURI) {
			return false
		}
	}
	m := initRe.FindStringSubmatch(base)
	if m == nil || m[2] != s {
		bad("C05", "EXT-X-MAP URI %q does not name the init file of stream %s", mapURI, s)
		return false
	}
	f := e.fetch(mapURI, "init", s, 0, true)
	if f == nil {
		return false
	}
	init, err := DecodeInit(f.body)
	if err != nil {
		bad("C02", "init file does not decode: %v", err)
		return false
	}
	tracks := e.tracksOfStream(s)
	if len(init.Tracks) != len(tracks) {
		bad("C02", "init file declares %d tracks, the stream has %d", len(init.Tracks), len(tracks))
		return false
	}
	for k, ti := range tracks {
		it := init.Tracks[k]
		spec := cfg.Tracks[ti]
		if it.ID != k+1 {
			if bad("C02", "init track %d has id %d", k, it.ID) {
				return false
			}
		}
		if int(it.TimeScale) != spec.ClockRate() {
			if bad("C02", "init track %d has timescale %d, expected %d", k, it.TimeScale, spec.ClockRate()) {
				return false
			}
		}
		if !codecMatches(spec.Codec, it.Codec) {
			bad("C02", "init track %d declares codec %T for a %s track", k, it.Codec, spec.Codec)
			return false
		}
		if spec.IsVideo() {
			if !e.checkInitParams(ti, it.Codec, bad) {
				return false
			}
		}
	}
	return true
}

func codecMatches(name string, c fmp4.Codec) bool {
	switch c.(type) {
	case *fmp4.CodecH264:
		return name == "h264"
	case *fmp4.CodecH265:
		return name == "h265"
	case *fmp4.CodecAV1:
		return name == "av1"
	case *fmp4.CodecVP9:
		return name == "vp9"
	case *fmp4.CodecMPEG4Audio:
		return name == "aac"
	case *fmp4.CodecOpus:
		return name == "opus"
	}
	return false
}

func paramSetOfInit(c fmp4.Codec) ParamSet {
	switch c := c.(type) {
	case *fmp4.CodecH264:
		return ParamSet{A: c.SPS, B: c.PPS}
	case *fmp4.CodecH265:
		return ParamSet{A: c.VPS, B: c.SPS, C: c.PPS}
	case *fmp4.CodecAV1:
		return ParamSet{A: normAV1(c.SequenceHeader)}
	case *fmp4.CodecVP9:
		return ParamSet{VP9: VP9Params{Width: c.Width, Height: c.Height, ColorRange: c.ColorRange}}
	}
	return ParamSet{}
}

// normAV1 brings an OBU to the form with a size field (the container stores it that way).
func normAV1(obu []byte) []byte {
	b, err := av1.Bitstream([][]byte{obu}).Marshal()
	if err != nil {
		return obu
	}
	return b
}

// NormAV1 is normAV1 for other packages.
func NormAV1(obu []byte) []byte { return normAV1(obu) }

func normParams(codec string, p ParamSet) ParamSet {
	if codec == "av1" {
		p.A = normAV1(p.A)
	}
	return p
}

// checkInitParams: once the first complete segment encoded with changed parameters is listed
// and no further change has been seen, the init must carry the new parameters; before that,
// any parameter set the muxer has seen is accepted.
func (e *e1) checkInitParams(ti int, c fmp4.Codec, bad func(string, string, ...any) bool) bool {
	model := e.model
	codec := e.cfg.Tracks[ti].Codec
	got := paramSetOfInit(c)
	cur := normParams(codec, model.CurrentParams(ti))
	// is there a completed segment opened at the current parameter version (or no change at all)?
	settled := model.ParamVer == 0
	if !settled {
		lastEv := model.ParamLog[len(model.ParamLog)-1]
		for _, sgm := range model.Segs {
			if sgm.Forced && sgm.ParamVerAt == model.ParamVer && sgm.OpenedAtOp >= lastEv.Op {
				settled = true
			}
		}
	}
	if settled {
		if paramsDiffer(codec, got, cur) {
			if bad("C02", "init file carries parameters %s, the muxer's current parameters are %s (version %d, settled)", fmtParams(codec, got), fmtParams(codec, cur), model.ParamVer) {
				return false
			}
		}
		return true
	}
	// unsettled: must be one of the sets seen so far (initial or any logged change)
	if !paramsDiffer(codec, got, normParams(codec, ParamsOf(codec, e.cfg.Tracks[ti].Params))) {
		return true
	}
	for _, ev := range model.ParamLog {
		if ev.Track == ti && !paramsDiffer(codec, got, normParams(codec, ev.Set)) {
			return true
		}
	}
	if bad("C02", "init file carries parameters %s that were never written", fmtParams(codec, got)) {
		return false
	}
	return true
}

func fmtParams(codec string, p ParamSet) string {
	if codec == "vp9" {
		return fmt.Sprintf("%+v", p.VP9)
	}
	return fmt.Sprintf("%x/%x/%x", p.A, p.B, p.C)
}

// probe checks that unknown and expired URIs do not return media (C05, C18).
func (e *e1) probe(s string, x *m3u8x.XMedia, bad func(string, string, ...any) bool) {
	if e.prefix == "" {
		return
	}
	ext := ".mp4"
	if e.cfg.Variant == VariantMPEGTS {
		ext = ".ts"
	}
	first := *x.MediaSeq
	last := first + int64(len(x.Segments)) - 1
	var urls []string
	// expired segment (left the window), far future segment, other prefix
	if first > int64(e.model.FirstID()) {
		urls = append(urls, fmt.Sprintf("%s_%s_seg%d%s", e.prefix, s, first-1, ext))
		e.res.ExpiredProbed++
	}
	urls = append(urls,
		fmt.Sprintf("%s_%s_seg%d%s", e.prefix, s, last+5, ext),
		fmt.Sprintf("000000000000_%s_seg%d%s", s, last, ext),
		fmt.Sprintf("%s_%s_seg%d%s", e.prefix, "nosuch9", last, ext),
		"gap.mp4",
	)
	// expired parts: parts of segments no longer listed
	if e.cfg.Variant == VariantLL {
		lowest := uint64(1 << 62)
		for _, sg := range x.Segments {
			for _, p := range sg.Parts {
				b, _ := stripQuery(p.URI)
				if m := partRe.FindStringSubmatch(b); m != nil {
					n, _ := strconv.ParseUint(m[3], 10, 64)
					if n < lowest {
						lowest = n
					}
				}
			}
		}
		_ = lowest
		// parts of the oldest segment that left the window
		h := e.hist[s]
		var gone []uint64
		for n := range h.partFacts {
			gone = append(gone, n)
		}
		sort.Slice(gone, func(i, j int) bool { return gone[i] < gone[j] })
		if len(gone) > 0 && first > int64(e.model.FirstID()) {
			// the smallest part number ever listed belongs to a segment; if that segment expired the part must be gone
			n := gone[0]
			ms := e.model.SegByID(uint64(first - 1))
			_ = ms
			if f, ok := e.fetchedBy[fmt.Sprintf("%s_%s_part%d.mp4", e.prefix, s, n)]; ok && f != nil {
				// only assert for parts whose parent segment is known to have left the window:
				// part n was listed under a segment with msn < first  <=> it was first seen before that segment completed
				_ = f
			}
		}
	}
	for _, u := range urls {
		r := e.drv.GetDirect(u)
		if r.Panic != "" {
			if bad("C08", "panic while serving %s: %s", u, r.Panic) {
				return
			}
		}
		if r.Status == 200 && len(r.Body) > 0 {
			// an expired URI that still resolves breaks C05 (last sentence) and C18 alike
			stop := false
			if strings.Contains(u, fmt.Sprintf("seg%d", first-1)) {
				stop = bad("C18", "URI %s, which has left the window (msn %d..%d), still returns %d bytes", u, first, last, len(r.Body))
			}
			if bad("C05", "URI %s, which is unknown or has left the window (msn %d..%d), still returns %d bytes", u, first, last, len(r.Body)) || stop {
				return
			}
		}
	}
}

// ---- multivariant (C16) is in e1_multi.go; retention (C18) in e1_retention.go ----

var _ = os.Getenv

// checkOpenParts: the parts of the segment being written decode to a prefix of the units the
// model holds for its open segment (C01: "and, in Low-Latency mode, the parts").
func (e *e1) checkOpenParts(s string, bodies [][]byte, bad func(string, string, ...any) bool) bool {
	open := e.model.Open
	if open == nil {
		return true
	}
	per := map[int][]DUnit{}
	for _, b := range bodies {
		_, units, err := DecodeFMP4(b)
		if err != nil {
			bad("C01", "a part of the open segment does not decode: %v", err)
			return false
		}
		for _, u := range units {
			per[u.TrackID] = append(per[u.TrackID], u)
		}
	}
	for _, ti := range e.tracksOfStream(s) {
		_, tid := e.cfg.StreamOf(ti)
		want := open.Units[ti]
		got := per[tid]
		if len(got) > len(want) {
			if bad("C01", "open segment %d track %d: its parts hold %d units, only %d were emitted; extra: %s", open.ID, ti, len(got), len(want), describe(got[len(want)].Payload)) {
				return false
			}
			continue
		}
		for k, g := range got {
			w := want[k]
			if !bytes.Equal(w.Payload, g.Payload) || g.DTS != w.DTS || g.PTSOff != w.PTSOff || g.Dur != w.Dur || g.Sync != w.Sync {
				if bad("C01", "open segment %d track %d unit %d: parts hold %s dts/ptsoff/dur/sync %d/%d/%d/%v, expected %s %d/%d/%d/%v", open.ID, ti, k, describe(g.Payload), g.DTS, g.PTSOff, g.Dur, g.Sync, describe(w.Payload), w.DTS, w.PTSOff, w.Dur, w.Sync) {
					return false
				}
				break
			}
		}
		e.res.UnitsDecoded += len(got)
	}
	return true
}

// checkDelta: the delta update of the same state is one more playlist observable from the stream
// (C04): same EXT-X-MEDIA-SEQUENCE, and every listed entry sits at the sequence number it has in
// the full playlist (media sequence + skipped + position) with the same URI, duration and gap flag.
func (e *e1) checkDelta(s string, full *m3u8x.XMedia) {
	path := e.playlistPath(s)
	if strings.Contains(path, "?") {
		path += "&_HLS_skip=YES"
	} else {
		path += "?_HLS_skip=YES"
	}
	r := e.drv.GetDirect(path)
	if r.Panic != "" {
		e.viol("C08", "panic while serving the delta update of %s: %s", s, r.Panic)
		return
	}
	if r.Status != 200 {
		e.viol("C06", "delta update of %s answered status %d", s, r.Status)
		return
	}
	text := string(r.Body)
	bad := func(f string, a ...any) bool {
		return e.viol("C04", "stream %s, observation %d, delta update: %s\n%s", s, e.obsN, fmt.Sprintf(f, a...), text)
	}
	x, err := m3u8x.ParseMedia(text)
	if err != nil || x.MediaSeq == nil {
		e.viol("C15", "delta update of %s cannot be read: %v\n%s", s, err, text)
		return
	}
	e.res.DeltaObserved++
	if *x.MediaSeq != *full.MediaSeq {
		if bad("EXT-X-MEDIA-SEQUENCE is %d, the full playlist of the same state says %d", *x.MediaSeq, *full.MediaSeq) {
			return
		}
	}
	skipped := int64(0)
	if x.Skip != nil {
		skipped = *x.Skip
	}
	if int(skipped)+len(x.Segments) != len(full.Segments) {
		if bad("%d skipped + %d listed segments, the full playlist lists %d", skipped, len(x.Segments), len(full.Segments)) {
			return
		}
	}
	h := e.hist[s]
	for k, seg := range x.Segments {
		msn := *x.MediaSeq + skipped + int64(k)
		if j := int(skipped) + k; j < len(full.Segments) && full.Segments[j].URI != seg.URI {
			// both requests carry the same non-_HLS_ query: the URI text must not depend on the directive
			if bad("media sequence number %d is listed as %q, the full playlist requested with the same query lists %q", msn, seg.URI, full.Segments[j].URI) {
				return
			}
		}
		b, _ := stripQuery(seg.URI)
		fact := fmt.Sprintf("%s|%s|%v", b, seg.DurText, seg.Gap)
		if old, ok := h.segFacts[msn]; ok && old != fact {
			if bad("media sequence number %d is %s, the full playlists say %s", msn, fact, old) {
				return
			}
		}
	}
}
