package mux

import (
	"bytes"
	"fmt"
	"math/big"
	"time"

	"github.com/bluenviron/mediacommon/v2/pkg/codecs/h264"
)

// ---- scripts ---------------------------------------------------------------------------------

// Muxer variants (same numbering as gohlslib.MuxerVariant).
const (
	VariantMPEGTS = 1
	VariantFMP4   = 2
	VariantLL     = 3
)

// Config is the muxer configuration of a script.
type Config struct {
	Variant            int         `json:"variant"`
	Tracks             []TrackSpec `json:"tracks"`
	SegmentCount       int         `json:"segment_count"`
	SegmentMinDuration int64       `json:"segment_min_duration_ns"`
	NTPZoneMin         int         `json:"ntp_zone_min,omitempty"` // zone offset (minutes) of the NTP values passed to Write*
	PartMinDuration    int64       `json:"part_min_duration_ns,omitempty"`
	SegmentMaxSize     uint64      `json:"segment_max_size,omitempty"`
	Disk               bool        `json:"disk,omitempty"`
}

// Op is one Write call.
type Op struct {
	Track   int    `json:"t"`
	TS      int64  `json:"ts"`           // DTS of the first unit of the write, in the track clock
	NTP     int64  `json:"ntp"`          // wall clock passed to Write, unix nanoseconds
	Kind    string `json:"k,omitempty"`  // video: ra | inter | params | sei
	InBand  int    `json:"ib,omitempty"` // video: 1+index of the parameter set carried in band (0 = none)
	Tmpl    int    `json:"tm,omitempty"` // h265 timing templates (see BuildVideo)
	Size    int    `json:"sz,omitempty"` // marker size per unit
	N       int    `json:"n,omitempty"`  // audio: units in this write (default 1)
	OpusC   int    `json:"oc,omitempty"` // opus TOC config
	OpusF   int    `json:"of,omitempty"` // opus frames per packet (default 1)
	OpusMix bool   `json:"om,omitempty"` // packets of one write use different TOC configs
}

// Script is a muxer configuration plus a write sequence.
type Script struct {
	Config Config `json:"config"`
	Ops    []Op   `json:"ops"`
}

// LeadingTrack returns the index of the leading track: the video track, else the first.
func (c Config) LeadingTrack() int {
	for i, t := range c.Tracks {
		if t.IsVideo() {
			return i
		}
	}
	return 0
}

// StreamOf returns the id of the stream that carries track i and the track's 1-based id
// inside that stream's init/fragments.
func (c Config) StreamOf(i int) (string, int) {
	if c.Variant == VariantMPEGTS {
		return "main", i + 1
	}
	if c.Tracks[i].IsVideo() {
		return fmt.Sprintf("video%d", i+1), 1
	}
	return fmt.Sprintf("audio%d", i+1), 1
}

// Streams lists stream ids in track order.
func (c Config) Streams() []string {
	if c.Variant == VariantMPEGTS {
		return []string{"main"}
	}
	var out []string
	for i := range c.Tracks {
		s, _ := c.StreamOf(i)
		out = append(out, s)
	}
	return out
}

// LeadingStream is the id of the leading stream.
func (c Config) LeadingStream() string {
	s, _ := c.StreamOf(c.LeadingTrack())
	return s
}

// ---- units built from ops --------------------------------------------------------------------

// WriteArgs is what is passed to Muxer.Write* for an op.
type WriteArgs struct {
	PTS   int64
	NTP   time.Time
	Units [][]byte // NALUs / OBUs / [frame] / AUs / packets
}

// ArgsOf builds the arguments of the Write call of op i.
func ArgsOf(cfg Config, i int, op Op) WriteArgs {
	spec := cfg.Tracks[op.Track]
	a := WriteArgs{NTP: time.Unix(0, op.NTP).UTC()}
	if cfg.NTPZoneMin != 0 {
		// the same instant expressed in another zone (time.Now() on a non-UTC machine)
		a.NTP = a.NTP.In(time.FixedZone("", cfg.NTPZoneMin*60))
	}
	size := op.Size
	if spec.IsVideo() {
		a.Units = BuildVideo(spec.Codec, op.Kind, op.InBand-1, op.Tmpl, Marker(i, 0, size))
		a.PTS = op.TS
		if spec.Codec == "h265" && op.Tmpl >= 1 {
			a.PTS = op.TS + H265PTSDelta(op.Tmpl)
		}
		return a
	}
	n := op.N
	if n < 1 {
		n = 1
	}
	a.PTS = op.TS
	for k := 0; k < n; k++ {
		if spec.Codec == "opus" {
			f := op.OpusF
			if f < 1 {
				f = 1
			}
			c := op.OpusC
			if op.OpusMix {
				c = OpusMixConfig(op.OpusC, k)
			}
			a.Units = append(a.Units, OpusPacket(c, f, Marker(i, k, size)))
		} else {
			a.Units = append(a.Units, Marker(i, k, size))
		}
	}
	return a
}

// OpusMixConfig is the TOC config of packet k of a mixed write.
func OpusMixConfig(base, k int) int { return (base + 5*k) % 32 }

// OpusPacketTicks is the duration (48 kHz ticks) of a packet with the given TOC config and frame count code.
func OpusPacketTicks(config, frames int) int64 { return opusDuration(OpusPacket(config, frames, nil)) }

// ---- model -----------------------------------------------------------------------------------

// MUnit is a unit the model expects to find in the muxer's output.
type MUnit struct {
	Track   int
	Op, Sub int
	DTS     int64 // container time: track clock + 10 s (fMP4) or 90 kHz (MPEG-TS, not yet reduced mod 2^33)
	PTSOff  int64
	Dur     int64 // fMP4 sample duration
	Sync    bool
	Payload []byte   // fMP4 sample payload
	Parts   [][]byte // MPEG-TS: NALUs (video) or AUs (audio)
	NTP     time.Time
	Exact90 bool // MPEG-TS: conversion to 90 kHz is exact
}

// MSeg is a segment of the model. All streams share boundaries; Units is indexed by track.
type MSeg struct {
	ID         uint64
	StartTicks int64 // leading track clock (incl. the fMP4 offset)
	EndTicks   int64
	Rate       int64
	NTP        time.Time
	Forced     bool // opened by a parameter change
	Complete   bool
	Units      [][]MUnit
	Size       map[string]uint64 // payload bytes per stream
	OpenedAtOp int
	ClosedAtOp int
	Writes     int // leading writes (audio-only MPEG-TS rule)
	ParamVerAt int // parameter version when the segment was opened
	StartOp    int // op that carries the segment's first leading unit
	StartSub   int
}

// DurationRat is the exact duration in seconds.
func (s *MSeg) DurationRat() *big.Rat {
	return big.NewRat(s.EndTicks-s.StartTicks, s.Rate)
}

// DurationNS is the exact duration rounded down to nanoseconds.
func (s *MSeg) DurationNS() int64 {
	r := new(big.Rat).Mul(s.DurationRat(), big.NewRat(1_000_000_000, 1))
	return new(big.Int).Quo(r.Num(), r.Denom()).Int64()
}

type mTrack struct {
	spec      TrackSpec
	leading   bool
	started   bool // first random access received (video)
	h264ex    *h264.DTSExtractor
	next      *MUnit // fMP4 look-ahead
	nextRA    bool
	nextParam bool
	cur       ParamSet
	stream    string
}

// StepResult says what the model expects from one Write.
type StepResult struct {
	ExpectError bool   // the write must fail (segment size limit)
	Ambiguous   bool   // a boundary decision within 1 ns of SegmentMinDuration: outside the decided domain
	Cut         bool   // a segment was completed by this write
	Reason      string // min | param
}

// Model is the reference model of the muxer (DESIGN Appendix A).
type Model struct {
	Cfg      Config
	Leading  int
	tracks   []*mTrack
	Segs     []*MSeg // completed segments, oldest first (all of them, not only the window)
	Open     *MSeg
	pending  bool
	ParamVer int          // incremented on every observed parameter change
	ParamLog []ParamEvent // history of parameter changes
	opIndex  int
	Dropped  int // units rejected (negative time, before start, ...)
	MaxSize  uint64
	// number of leading units whose cut decision was "min duration reached", "not yet", "param"
	Decisions map[string]int
}

// ParamEvent records a parameter change seen by the muxer.
type ParamEvent struct {
	Op    int
	Track int
	Set   ParamSet
	Ver   int
}

// NewModel creates the model of cfg.
func NewModel(cfg Config) *Model {
	m := &Model{Cfg: cfg, Leading: cfg.LeadingTrack(), Decisions: map[string]int{}}
	m.MaxSize = cfg.SegmentMaxSize
	if m.MaxSize == 0 {
		m.MaxSize = 50 * 1024 * 1024
	}
	for i, t := range cfg.Tracks {
		st, _ := cfg.StreamOf(i)
		m.tracks = append(m.tracks, &mTrack{spec: t, leading: i == m.Leading, cur: ParamsOf(t.Codec, t.Params), stream: st})
	}
	return m
}

// FirstID is the id of the first real segment.
func (m *Model) FirstID() uint64 {
	if m.Cfg.Variant == VariantLL {
		return 7
	}
	return 0
}

// HasContent tells whether playlists are expected to be available.
func (m *Model) HasContent() bool {
	if m.Cfg.Variant == VariantFMP4 {
		return len(m.Segs) >= 2
	}
	return len(m.Segs) >= 1
}

// CurrentParams returns the parameter set the muxer currently knows for track i.
func (m *Model) CurrentParams(i int) ParamSet { return m.tracks[i].cur }

func (m *Model) offset(rate int) int64 {
	if m.Cfg.Variant == VariantMPEGTS {
		return 0
	}
	return 10 * int64(rate)
}

func paramsDiffer(codec string, a, b ParamSet) bool {
	if codec == "vp9" {
		return a.VP9 != b.VP9
	}
	return !bytes.Equal(a.A, b.A) || !bytes.Equal(a.B, b.B) || !bytes.Equal(a.C, b.C)
}

func (m *Model) newSeg(startTicks int64, ntp time.Time, forced bool, op, sub int) *MSeg {
	id := m.FirstID() + uint64(len(m.Segs))
	return &MSeg{
		ID: id, StartTicks: startTicks, Rate: int64(m.Cfg.Tracks[m.Leading].ClockRate()), NTP: ntp, Forced: forced,
		Units: make([][]MUnit, len(m.Cfg.Tracks)), Size: map[string]uint64{}, OpenedAtOp: m.opIndex, ParamVerAt: m.ParamVer,
		StartOp: op, StartSub: sub,
	}
}

// elapsed compares (ticks/rate seconds) with min nanoseconds: -1 below by >= 1 ns, +1 reached
// by >= 1 ns or exactly representable and equal, 0 ambiguous.
func elapsedVsMin(startTicks, nowTicks, rate int64, minNS int64, exactStart, exactNow bool) int {
	e := new(big.Rat).Mul(big.NewRat(nowTicks-startTicks, rate), big.NewRat(1_000_000_000, 1))
	d := new(big.Rat).Sub(e, big.NewRat(minNS, 1))
	one := big.NewRat(1, 1)
	if d.Cmp(one) >= 0 {
		return 1
	}
	if d.Cmp(new(big.Rat).Neg(one)) <= 0 {
		return -1
	}
	if d.Sign() == 0 && exactStart && exactNow {
		return 1
	}
	return 0
}

// nsExact tells whether ticks/rate seconds is a whole number of nanoseconds.
func nsExact(ticks, rate int64) bool {
	return new(big.Int).Mod(new(big.Int).Mul(big.NewInt(ticks), big.NewInt(1_000_000_000)), big.NewInt(rate)).Sign() == 0
}

func (m *Model) cut(nowTicks int64, ntp time.Time, forced bool, reason string, res *StepResult, op, sub int) {
	s := m.Open
	s.EndTicks = nowTicks
	s.Complete = true
	s.ClosedAtOp = m.opIndex
	m.Segs = append(m.Segs, s)
	m.Open = m.newSeg(nowTicks, ntp, forced, op, sub)
	res.Cut = true
	res.Reason = reason
}

// Step feeds op i to the model.
func (m *Model) Step(i int, op Op) StepResult {
	m.opIndex = i
	var res StepResult
	tr := m.tracks[op.Track]
	spec := tr.spec
	args := ArgsOf(m.Cfg, i, op)
	rate := int64(spec.ClockRate())

	if spec.IsVideo() {
		// A2 parameter tracking
		if op.InBand >= 1 || spec.Codec == "av1" || spec.Codec == "vp9" {
			carries := op.InBand >= 1
			idx := op.InBand - 1
			if (spec.Codec == "av1" || spec.Codec == "vp9") && op.Kind == KindRA {
				carries = true
				if idx < 0 {
					idx = 0
				}
			}
			if (spec.Codec == "av1" || spec.Codec == "vp9") && op.Kind != KindRA {
				carries = false
			}
			if carries {
				ps := ParamsOf(spec.Codec, idx)
				if paramsDiffer(spec.Codec, ps, tr.cur) {
					tr.cur = ps
					m.pending = true
					m.ParamVer++
					m.ParamLog = append(m.ParamLog, ParamEvent{Op: i, Track: op.Track, Set: ps, Ver: m.ParamVer})
				}
			}
		}
		if op.Kind == KindParamOnly || op.Kind == KindSEI {
			return res // not a media unit
		}
		ra := op.Kind == KindRA
		paramsChanged := false
		if ra && m.pending {
			m.pending = false
			paramsChanged = true
		}
		if !tr.started {
			if !ra {
				m.Dropped++
				return res
			}
			tr.started = true
		}
		dts := op.TS
		if spec.Codec == "h264" && op.Tmpl >= 1 {
			// reorder family: the decode time is what mediacommon's extractor derives from the
			// presentation times and picture order counts (harness-owned instance, fed like the
			// muxer feeds its own: from the first random access unit on)
			if tr.h264ex == nil {
				tr.h264ex = &h264.DTSExtractor{}
				tr.h264ex.Initialize()
			}
			d, err := tr.h264ex.Extract(args.Units, args.PTS)
			if err != nil {
				res.ExpectError = true
				res.Reason = "dts extractor: " + err.Error()
				return res
			}
			dts = d
		}
		ptsOff := args.PTS - dts
		if m.Cfg.Variant == VariantMPEGTS {
			u := MUnit{Track: op.Track, Op: i, DTS: dts, PTSOff: ptsOff, Sync: ra, Parts: args.Units, NTP: args.NTP, Exact90: true}
			return m.emitTS(u, ra, paramsChanged, rate, lenSum(args.Units))
		}
		payload, err := ContainerPayload(spec.Codec, args.Units)
		if err != nil {
			panic(err)
		}
		u := &MUnit{Track: op.Track, Op: i, DTS: dts + m.offset(int(rate)), PTSOff: ptsOff, Sync: ra, Payload: payload, NTP: args.NTP}
		if u.DTS < 0 {
			m.Dropped++
			return res
		}
		return m.acceptFMP4(tr, u, ra, paramsChanged, rate)
	}

	// audio
	if m.Cfg.Variant == VariantMPEGTS {
		u := MUnit{Track: op.Track, Op: i, DTS: op.TS, Sync: true, Parts: args.Units, NTP: args.NTP, Exact90: rate == 90000 || (op.TS*90000)%rate == 0}
		return m.emitTS(u, true, false, rate, lenSum(args.Units))
	}
	ts := op.TS
	ntp := args.NTP
	for k, pkt := range args.Units {
		var uts int64
		var untp time.Time
		if spec.Codec == "aac" {
			uts = op.TS + int64(k)*1024*rate/int64(spec.SampleRate)
			untp = args.NTP.Add(time.Duration(k) * 1024 * time.Second / time.Duration(spec.SampleRate))
		} else {
			uts, untp = ts, ntp
			d := opusDuration(pkt)
			ts += d
			ntp = ntp.Add(ticksToDuration(d, 48000))
		}
		u := &MUnit{Track: op.Track, Op: i, Sub: k, DTS: uts + m.offset(int(rate)), Sync: true, Payload: pkt, NTP: untp}
		if u.DTS < 0 {
			m.Dropped++
			continue
		}
		r := m.acceptFMP4(tr, u, true, false, rate)
		res.Cut = res.Cut || r.Cut
		if r.Reason != "" {
			res.Reason = r.Reason
		}
		res.Ambiguous = res.Ambiguous || r.Ambiguous
		if r.ExpectError {
			res.ExpectError = true
			return res
		}
	}
	return res
}

func lenSum(bs [][]byte) uint64 {
	n := uint64(0)
	for _, b := range bs {
		n += uint64(len(b))
	}
	return n
}

// ticksToDuration converts like the documented truncating conversion (whole nanoseconds).
func ticksToDuration(t int64, rate int64) time.Duration {
	secs := t / rate
	dec := t % rate
	return time.Duration(secs*1_000_000_000 + dec*1_000_000_000/rate)
}

var opusFrameSizes = [32]int64{480, 960, 1920, 2880, 480, 960, 1920, 2880, 480, 960, 1920, 2880, 480, 960, 480, 960,
	120, 240, 480, 960, 120, 240, 480, 960, 120, 240, 480, 960, 120, 240, 480, 960}

// opusDuration is RFC 6716 3.1 (48 kHz samples).
func opusDuration(pkt []byte) int64 {
	if len(pkt) == 0 {
		return 0
	}
	fd := opusFrameSizes[pkt[0]>>3]
	switch pkt[0] & 3 {
	case 0:
		return fd
	case 1, 2:
		return 2 * fd
	}
	if len(pkt) < 2 {
		return 0
	}
	return fd * int64(pkt[1]&63)
}

// acceptFMP4 implements A3/A4 for fMP4 variants: u is the newly accepted unit of tr.
func (m *Model) acceptFMP4(tr *mTrack, u *MUnit, ra, paramsChanged bool, rate int64) StepResult {
	var res StepResult
	prev := tr.next
	tr.next = u
	tr.nextRA, tr.nextParam = ra, paramsChanged
	if prev == nil {
		return res
	}
	prev.Dur = u.DTS - prev.DTS
	if tr.leading {
		if m.Open == nil {
			m.Open = m.newSeg(prev.DTS, prev.NTP, false, prev.Op, prev.Sub)
		}
	} else if m.Open == nil {
		m.Dropped++
		return res // emitted before the leading track started: discarded
	}
	// A8 size limit
	sz := m.Open.Size[tr.stream] + uint64(len(prev.Payload))
	if sz > m.MaxSize {
		res.ExpectError = true
		return res
	}
	m.Open.Size[tr.stream] = sz
	m.Open.Units[prev.Track] = append(m.Open.Units[prev.Track], *prev)
	if !tr.leading {
		return res
	}
	m.Open.Writes++
	if !ra {
		m.Decisions["not-random-access"]++
		return res
	}
	if paramsChanged {
		m.Decisions["param"]++
		m.cut(u.DTS, u.NTP, true, "param", &res, u.Op, u.Sub)
		return res
	}
	switch elapsedVsMin(m.Open.StartTicks, u.DTS, rate, m.Cfg.SegmentMinDuration, nsExact(m.Open.StartTicks, rate), nsExact(u.DTS, rate)) {
	case 1:
		m.Decisions["min-reached"]++
		m.cut(u.DTS, u.NTP, false, "min", &res, u.Op, u.Sub)
	case -1:
		m.Decisions["min-not-reached"]++
	default:
		res.Ambiguous = true
	}
	return res
}

// emitTS implements A3/A4 for MPEG-TS.
func (m *Model) emitTS(u MUnit, ra, paramsChanged bool, rate int64, size uint64) StepResult {
	var res StepResult
	tr := m.tracks[u.Track]
	if tr.leading {
		if m.Open == nil {
			m.Open = m.newSeg(u.DTS, u.NTP, false, u.Op, 0)
		} else {
			video := tr.spec.IsVideo()
			if (video && ra) || !video {
				cmp := elapsedVsMin(m.Open.StartTicks, u.DTS, rate, m.Cfg.SegmentMinDuration, nsExact(m.Open.StartTicks, rate), nsExact(u.DTS, rate))
				switch {
				case video && paramsChanged:
					m.Decisions["param"]++
					m.cut(u.DTS, u.NTP, false, "param", &res, u.Op, 0)
				case !video && m.Open.Writes < 100:
					m.Decisions["audio-count-not-reached"]++
				case cmp == 1:
					m.Decisions["min-reached"]++
					m.cut(u.DTS, u.NTP, false, "min", &res, u.Op, 0)
				case cmp == -1:
					m.Decisions["min-not-reached"]++
				default:
					// undecided boundary: the scenario leaves the decided domain (E1 skips it); the unit
					// itself is still part of the stream
					res.Ambiguous = true
				}
			} else {
				m.Decisions["not-random-access"]++
			}
		}
	} else if m.Open == nil {
		m.Dropped++
		return res
	}
	if m.Open.Size["main"]+size > m.MaxSize {
		res.ExpectError = true
		return res
	}
	m.Open.Size["main"] += size
	if tr.leading {
		m.Open.Writes++
	}
	m.Open.Units[u.Track] = append(m.Open.Units[u.Track], u)
	return res
}

// Window returns the media sequence number of the first listed entry and the ids that are
// listed (gap entries included for Low-Latency) after the completed segments so far.
func (m *Model) Window() (first uint64, n int) {
	total := len(m.Segs)
	if m.Cfg.Variant == VariantLL && total > 0 {
		total += 7
	}
	n = total
	if n > m.Cfg.SegmentCount {
		n = m.Cfg.SegmentCount
	}
	first = uint64(total - n)
	return
}

// SegByID returns the completed segment with the given id.
func (m *Model) SegByID(id uint64) *MSeg {
	k := int(id) - int(m.FirstID())
	if k < 0 || k >= len(m.Segs) {
		return nil
	}
	return m.Segs[k]
}
