package mux

import "os"

var osRemoveAll = os.RemoveAll
