//go:build verif

package mux

import gohlslib "github.com/bluenviron/gohlslib/v2"

func init() {
	SetYield = gohlslib.VerifSetYield
	PathCounter = func(d *Driver) int { return d.M.VerifPathCount() }
}
