package mux

import (
	"fmt"
	"math"
	"sort"
	"strconv"
	"strings"

	"github.com/bluenviron/gohlslib/v2/pkg/codecparams"
	"github.com/bluenviron/mediacommon/v2/pkg/codecs/av1"
	"github.com/bluenviron/mediacommon/v2/pkg/codecs/h264"
	"github.com/bluenviron/mediacommon/v2/pkg/codecs/h265"

	"verifharness/m3u8x"
)

// expectedCodecString is the RFC 6381 string of a track with its current parameters.
// avc1 / mp4a / opus / av01 / vp09 are computed by the harness from the parameter sets (av01 from
// mediacommon's parsed sequence header); hvc1 still uses the repository's codecparams package.
func expectedCodecString(spec TrackSpec, cur ParamSet) string {
	switch spec.Codec {
	case "h264":
		if len(cur.A) >= 4 {
			return fmt.Sprintf("avc1.%02x%02x%02x", cur.A[1], cur.A[2], cur.A[3])
		}
	case "aac":
		typ := spec.AACType
		if typ == 0 {
			typ = 2
		}
		return "mp4a.40." + strconv.Itoa(typ)
	case "opus":
		return "opus"
	case "vp9":
		// vp09.<profile>.<level>.<bit depth>: profile 0, level 1.0 ("10"), 8 bits for every set of the kit
		return "vp09.00.10.08"
	case "av1":
		// av01.P.LLT.DD.M.CCC.cp.tc.mc.F (AV1 codec ISO media file format binding, section 5)
		var sh av1.SequenceHeader
		if err := sh.Unmarshal(cur.A); err == nil && len(sh.SeqLevelIdx) > 0 && len(sh.SeqTier) > 0 {
			b2 := func(b bool) string {
				if b {
					return "1"
				}
				return "0"
			}
			tier := "M"
			if sh.SeqTier[0] {
				tier = "H"
			}
			cc := sh.ColorConfig
			out := fmt.Sprintf("av01.%d.%02d%s.%02d.%s.%s%s%d.", sh.SeqProfile, sh.SeqLevelIdx[0], tier, cc.BitDepth, b2(cc.MonoChrome), b2(cc.SubsamplingX), b2(cc.SubsamplingY), cc.ChromaSamplePosition)
			if cc.ColorDescriptionPresentFlag {
				return out + fmt.Sprintf("%02d.%02d.%02d.%s", cc.ColorPrimaries, cc.TransferCharacteristics, cc.MatrixCoefficients, b2(cc.ColorRange))
			}
			return out + "01.01.01.0"
		}
	}
	// hvc1: the repository's codecparams package on a codec object rebuilt from the model's
	// current parameters (only "the current parameters are used" is checked for H265)
	cp := CodecOfParams(spec, cur)
	return codecparams.Marshal(cp)
}

// expectedResolution returns WxH and the frame rate (0 = none) of the current parameters.
func expectedResolution(spec TrackSpec, cur ParamSet) (string, float64) {
	switch spec.Codec {
	case "h264":
		var sps h264.SPS
		if err := sps.Unmarshal(cur.A); err != nil {
			return "?", 0
		}
		return fmt.Sprintf("%dx%d", sps.Width(), sps.Height()), sps.FPS()
	case "h265":
		var sps h265.SPS
		if err := sps.Unmarshal(cur.B); err != nil {
			return "?", 0
		}
		return fmt.Sprintf("%dx%d", sps.Width(), sps.Height()), sps.FPS()
	case "av1":
		var sh av1.SequenceHeader
		if err := sh.Unmarshal(cur.A); err != nil {
			return "?", 0
		}
		return fmt.Sprintf("%dx%d", sh.Width(), sh.Height()), 0
	case "vp9":
		return fmt.Sprintf("%dx%d", cur.VP9.Width, cur.VP9.Height), 0
	}
	return "", 0
}

func (e *e1) checkMultivariant() {
	res := e.res
	cfg := e.cfg
	model := e.model
	path := "index.m3u8"
	if e.opt.Query != "" {
		path += "?" + e.opt.Query
	}
	r := e.drv.GetDirect(path)
	if r.Panic != "" {
		e.viol("C16", "panic while serving the multivariant playlist: %s", r.Panic)
		return
	}
	if r.Status != 200 {
		e.viol("C16", "multivariant playlist answered status %d although media playlists are available", r.Status)
		return
	}
	text := string(r.Body)
	bad := func(prop, f string, a ...any) {
		e.viol(prop, "multivariant playlist, observation %d: %s\n%s", e.obsN, fmt.Sprintf(f, a...), text)
	}
	if e.opt.OnPlaylist != nil {
		e.opt.OnPlaylist("index", text)
	}
	if errs := m3u8x.Strict(text); len(errs) > 0 {
		bad("C15", "not grammatical: %s", strings.Join(errs, "; "))
		return
	}
	x, err := m3u8x.ParseMulti(text)
	if err != nil {
		bad("C15", "cannot be read: %v", err)
		return
	}
	if len(x.Variants) != 1 {
		bad("C16", "%d variants", len(x.Variants))
		return
	}
	v := x.Variants[0]
	q := ""
	if e.opt.Query != "" {
		q = "?" + e.opt.Query
	}
	lead := cfg.LeadingTrack()
	leadStream := cfg.LeadingStream()
	if v.URI != leadStream+"_stream.m3u8"+q {
		bad("C16", "variant URI is %q, expected %q", v.URI, leadStream+"_stream.m3u8"+q)
		return
	}
	// CODECS
	var want []string
	for ti, spec := range cfg.Tracks {
		s := expectedCodecString(spec, model.CurrentParams(ti))
		dup := false
		for _, w := range want {
			dup = dup || w == s
		}
		if !dup {
			want = append(want, s)
		}
	}
	codecsAttr, _ := m3u8x.Get(v.Attrs, "CODECS")
	got := strings.Split(codecsAttr.Val, ",")
	sg, sw := append([]string{}, got...), append([]string{}, want...)
	sort.Strings(sg)
	sort.Strings(sw)
	if strings.Join(sg, ",") != strings.Join(sw, ",") {
		bad("C16", "CODECS is %q, the tracks' current parameters give %v", codecsAttr.Val, want)
		return
	}
	// RESOLUTION / FRAME-RATE
	resAttr, hasRes := m3u8x.Get(v.Attrs, "RESOLUTION")
	fpsAttr, hasFPS := m3u8x.Get(v.Attrs, "FRAME-RATE")
	if cfg.Tracks[lead].IsVideo() {
		wr, wf := expectedResolution(cfg.Tracks[lead], model.CurrentParams(lead))
		if !hasRes || resAttr.Val != wr {
			bad("C16", "RESOLUTION is %q, current video parameters give %s", resAttr.Val, wr)
			return
		}
		if wf != 0 {
			f, _ := strconv.ParseFloat(fpsAttr.Val, 64)
			if !hasFPS || math.Abs(f-wf) > 0.0011 {
				bad("C16", "FRAME-RATE is %q, current video parameters give %.3f", fpsAttr.Val, wf)
				return
			}
		} else if hasFPS {
			bad("C16", "FRAME-RATE %q announced although the parameter sets carry no timing", fpsAttr.Val)
			return
		}
	} else if hasRes || hasFPS {
		bad("C16", "RESOLUTION / FRAME-RATE on an audio-only variant")
		return
	}
	// renditions
	type wantRend struct {
		name, lang, uri string
		hasURI          bool
		def             bool
	}
	var wr []wantRend
	if cfg.Variant != VariantMPEGTS {
		hasVideo := cfg.Tracks[lead].IsVideo()
		userDefault := false
		for _, t := range cfg.Tracks {
			if !t.IsVideo() && t.IsDefault {
				userDefault = true
			}
		}
		chosen := false
		for ti, t := range cfg.Tracks {
			if t.IsVideo() {
				continue
			}
			isRend := ti != lead || (!hasVideo && len(cfg.Tracks) > 1)
			if !isRend {
				continue
			}
			st, _ := cfg.StreamOf(ti)
			w := wantRend{name: t.Name, lang: t.Language}
			if w.name == "" {
				w.name = st
			}
			if ti != lead {
				w.hasURI = true
				w.uri = st + "_stream.m3u8" + q
			}
			if userDefault {
				w.def = t.IsDefault
			} else if !chosen {
				w.def = true
				chosen = true
			}
			wr = append(wr, w)
		}
	}
	res.Renditions = len(wr)
	if len(x.Renditions) != len(wr) {
		bad("C16", "%d renditions, expected %d", len(x.Renditions), len(wr))
		return
	}
	audioAttr, hasAudio := m3u8x.Get(v.Attrs, "AUDIO")
	if len(wr) > 0 && (!hasAudio || audioAttr.Val == "") {
		bad("C16", "variant has no AUDIO group although there are %d renditions", len(wr))
		return
	}
	if len(wr) == 0 && hasAudio {
		bad("C16", "variant names AUDIO group %q but there is no rendition", audioAttr.Val)
		return
	}
	defaults := 0
	for k, w := range wr {
		a := x.Renditions[k]
		get := func(n string) (string, bool) { at, ok := m3u8x.Get(a, n); return at.Val, ok }
		if t, _ := get("TYPE"); t != "AUDIO" {
			bad("C16", "rendition %d has TYPE %q", k, t)
			return
		}
		if g, _ := get("GROUP-ID"); g != audioAttr.Val {
			bad("C16", "rendition %d is in group %q, the variant's AUDIO group is %q", k, g, audioAttr.Val)
			return
		}
		if n, _ := get("NAME"); n != w.name {
			bad("C16", "rendition %d has NAME %q, expected %q", k, n, w.name)
			return
		}
		if l, ok := get("LANGUAGE"); l != w.lang || (ok != (w.lang != "")) {
			bad("C16", "rendition %d has LANGUAGE %q (present=%v), expected %q", k, l, ok, w.lang)
			return
		}
		u, ok := get("URI")
		if ok != w.hasURI || (ok && u != w.uri) {
			bad("C16", "rendition %d has URI %q (present=%v), expected %q (present=%v)", k, u, ok, w.uri, w.hasURI)
			return
		}
		d, _ := get("DEFAULT")
		if (d == "YES") != w.def {
			bad("C16", "rendition %d DEFAULT=%q, expected default=%v", k, d, w.def)
			return
		}
		if d == "YES" {
			defaults++
		}
	}
	if len(wr) > 0 && defaults != 1 {
		bad("C16", "%d renditions are DEFAULT", defaults)
		return
	}
	// BANDWIDTH
	bwA, _ := m3u8x.Get(v.Attrs, "BANDWIDTH")
	abA, hasAB := m3u8x.Get(v.Attrs, "AVERAGE-BANDWIDTH")
	bw, _ := strconv.ParseInt(bwA.Val, 10, 64)
	ab, _ := strconv.ParseInt(abA.Val, 10, 64)
	// degenerate window: every listed segment of the first stream has zero duration (two random
	// access units with the same DTS and changed parameters): no bit rate is defined
	allZero := true
	if h0 := e.hist[cfg.Streams()[0]]; h0.lastX != nil {
		for k, sg := range h0.lastX.Segments {
			if sg.Gap {
				continue
			}
			if ms := model.SegByID(uint64(*h0.lastX.MediaSeq + int64(k))); ms == nil || ms.EndTicks > ms.StartTicks {
				allZero = false
			}
		}
	} else {
		allZero = false
	}
	if allZero {
		res.Labels["zero-duration-window"] = true
	}
	if !allZero && (!hasAB || ab <= 0 || bw < ab) {
		bad("C16", "BANDWIDTH=%s AVERAGE-BANDWIDTH=%s: need BANDWIDTH >= AVERAGE-BANDWIDTH > 0", bwA.Val, abA.Val)
		return
	}
	if len(cfg.Streams()) == 1 {
		h := e.hist[cfg.Streams()[0]]
		if h.lastX != nil {
			var maxBW float64
			var sizes, durs float64
			minDur := math.MaxFloat64
			okAll := true
			for k, sg := range h.lastX.Segments {
				if sg.Gap {
					continue
				}
				msn := *h.lastX.MediaSeq + int64(k)
				ms := model.SegByID(uint64(msn))
				b, _ := stripQuery(sg.URI)
				f := e.fetchedBy[b]
				if ms == nil || f == nil {
					okAll = false
					break
				}
				dur := float64(ms.EndTicks-ms.StartTicks) / float64(ms.Rate)
				if dur <= 0 {
					okAll = false
					break
				}
				if dur < minDur {
					minDur = dur
				}
				sz := float64(len(f.body))
				if bwk := 8 * sz / dur; bwk > maxBW {
					maxBW = bwk
				}
				sizes += sz
				durs += dur
			}
			if okAll && durs > 0 {
				avg := 8 * sizes / durs
				// durations are known to the muxer to the nanosecond: allow 2 ns on the shortest segment
				rel := 1e-6 + 2e-9/minDur
				if math.Abs(float64(bw)-maxBW) > 1+maxBW*rel || math.Abs(float64(ab)-avg) > 1+avg*rel {
					bad("C16", "BANDWIDTH=%d AVERAGE-BANDWIDTH=%d, the listed segments give peak %.1f and mean %.1f", bw, ab, maxBW, avg)
					return
				}
			}
		}
	}
}
