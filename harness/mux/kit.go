// Package mux holds the muxer-side machinery of the harness: codec kits (valid parameter
// sets and unit templates), write scripts, the reference model of the muxer derived from the
// property statements (MuxModel), a driver that executes a script against the real
// gohlslib.Muxer through its public API while recording everything it serves, and decoders of
// the served media built on mediacommon.
package mux

import (
	"fmt"
	"sync"

	"github.com/bluenviron/gohlslib/v2/pkg/codecs"
	"github.com/bluenviron/mediacommon/v2/pkg/codecs/av1"
	"github.com/bluenviron/mediacommon/v2/pkg/codecs/h264"
	"github.com/bluenviron/mediacommon/v2/pkg/codecs/h265"
	"github.com/bluenviron/mediacommon/v2/pkg/codecs/mpeg4audio"
)

// ---- parameter sets ----------------------------------------------------------------------

// H264 SPS with pic_order_cnt_type 2 (dts = pts), 1920x1080, baseline (repository's testSPS).
var h264SPSBase = []byte{
	0x67, 0x42, 0xc0, 0x28, 0xd9, 0x00, 0x78, 0x02,
	0x27, 0xe5, 0x84, 0x00, 0x00, 0x03, 0x00, 0x04,
	0x00, 0x00, 0x03, 0x00, 0xf0, 0x3c, 0x60, 0xc9,
	0x20,
}

// H264Params returns parameter set number i (SPS variants differ in level_idc / constraint
// flags and still parse; PPS bytes are never parsed by the library).
// H264 parameter sets 100.. belong to the "reorder" family: an SPS with pic_order_cnt_type 0
// (taken from mediacommon's DTS extractor test), for which the muxer derives decode times from
// the picture order counts in the slice headers (dts != pts with B-frames).
const H264ReorderBase = 100

var h264SPSReorder = []byte{
	0x67, 0x64, 0x00, 0x28, 0xac, 0xd9, 0x40, 0x78,
	0x02, 0x27, 0xe5, 0x84, 0x00, 0x00, 0x03, 0x00,
	0x04, 0x00, 0x00, 0x03, 0x00, 0xf0, 0x3c, 0x60,
	0xc6, 0x58,
}

var h264ReorderLevels = []byte{0x28, 0x29, 0x1f, 0x2a}

// IsH264Reorder tells whether a parameter set index belongs to the reorder family.
func IsH264Reorder(i int) bool { return i >= H264ReorderBase }

var (
	h264ReorderOnce sync.Once
	h264ReorderSPSp h264.SPS
)

func h264ReorderSPS() *h264.SPS {
	h264ReorderOnce.Do(func() {
		if err := h264ReorderSPSp.Unmarshal(h264SPSReorder); err != nil {
			panic(err)
		}
		if h264ReorderSPSp.PicOrderCntType != 0 || !h264ReorderSPSp.FrameMbsOnlyFlag {
			panic("reorder SPS is not of pic_order_cnt_type 0")
		}
	})
	return &h264ReorderSPSp
}

// H264Slice builds a slice NALU for the reorder family whose header carries pic_order_cnt_lsb =
// poc (mod its range). kind: 0 IDR (I slice), 1 P (reference), 2 B (non-reference).
func H264Slice(kind int, poc int, marker []byte) []byte {
	sps := h264ReorderSPS()
	var bitsBuf []byte
	nbits := 0
	put := func(v uint32, n int) {
		for i := n - 1; i >= 0; i-- {
			if nbits%8 == 0 {
				bitsBuf = append(bitsBuf, 0)
			}
			if v&(1<<uint(i)) != 0 {
				bitsBuf[len(bitsBuf)-1] |= 1 << uint(7-nbits%8)
			}
			nbits++
		}
	}
	ue := func(v uint32) {
		v++
		n := 0
		for t := v; t > 1; t >>= 1 {
			n++
		}
		put(0, n)
		put(v, n+1)
	}
	ue(0) // first_mb_in_slice
	switch kind {
	case 0:
		ue(7)
	case 1:
		ue(5)
	default:
		ue(6)
	}
	ue(0) // pic_parameter_set_id
	fn := int(sps.Log2MaxFrameNumMinus4 + 4)
	put(1<<uint(fn)-1, fn) // frame_num: all ones (its value is not interpreted; avoids zero runs)
	if kind == 0 {
		ue(0) // idr_pic_id
	}
	pn := int(sps.Log2MaxPicOrderCntLsbMinus4 + 4)
	put(uint32(poc)&(1<<uint(pn)-1), pn)
	put(1, 1)
	var hdr byte
	switch kind {
	case 0:
		hdr = 0x65
	case 1:
		hdr = 0x41
	default:
		hdr = 0x01
	}
	out := append([]byte{hdr}, bitsBuf...)
	out = append(out, 0xff)
	return append(out, marker...)
}

func H264Params(i int) (sps, pps []byte) {
	if i >= H264ReorderBase {
		j := i - H264ReorderBase
		sps = append([]byte{}, h264SPSReorder...)
		sps[3] = h264ReorderLevels[j%len(h264ReorderLevels)]
		pps = []byte{0x68, 0xce, byte(0x38 + j%7), 0x80 | byte(j%5+1)}
		return
	}
	sps = append([]byte{}, h264SPSBase...)
	levels := []byte{0x28, 0x29, 0x1f, 0x2a, 0x32}
	sps[3] = levels[i%len(levels)]
	if (i/len(levels))%2 == 1 {
		sps[2] = 0xe0
	}
	pps = []byte{0x68, 0xce, byte(0x30 + i%7), 0x80 | byte(i%5+1)}
	return
}

type h265Set struct {
	VPS, SPS, PPS []byte
	Timing        bool // SPS carries VUI timing and reordering: dts != pts
}

var h265Sets = []h265Set{
	{ // no timing info: dts = pts
		VPS: []byte{0x40, 0x01, 0x0c, 0x01, 0xff, 0xff, 0x01, 0x60, 0x00, 0x00, 0x03, 0x00, 0x90, 0x00, 0x00, 0x03, 0x00, 0x00, 0x03, 0x00, 0x78, 0x99, 0x98, 0x09},
		SPS: []byte{
			0x42, 0x01, 0x01, 0x02, 0x20, 0x00, 0x00, 0x03, 0x00, 0xb0, 0x00, 0x00, 0x03, 0x00, 0x00, 0x03,
			0x00, 0x7b, 0xa0, 0x07, 0x82, 0x00, 0x88, 0x7d, 0xb6, 0x71, 0x8b, 0x92, 0x44, 0x80, 0x53, 0x88,
			0x88, 0x92, 0xcf, 0x24, 0xa6, 0x92, 0x72, 0xc9, 0x12, 0x49, 0x22, 0xdc, 0x91, 0xaa, 0x48, 0xfc,
			0xa2, 0x23, 0xff, 0x00, 0x01, 0x00, 0x01, 0x6a, 0x02, 0x02, 0x02, 0x01,
		},
		PPS: []byte{0x44, 0x01, 0xc0, 0x25, 0x2f, 0x05, 0x32, 0x40},
	},
	{ // with timing info (30 fps, two reordered pictures): dts = pts - k*3000
		VPS: []byte{0x40, 0x01, 0x0c, 0x01, 0xff, 0xff, 0x01, 0x60, 0x00, 0x00, 0x03, 0x00, 0x90, 0x00, 0x00, 0x03, 0x00, 0x00, 0x03, 0x00, 0x78, 0x99, 0x98, 0x09},
		SPS: []byte{
			0x42, 0x01, 0x01, 0x01, 0x60, 0x00, 0x00, 0x03, 0x00, 0x90, 0x00, 0x00, 0x03, 0x00, 0x00, 0x03,
			0x00, 0x78, 0xa0, 0x03, 0xc0, 0x80, 0x10, 0xe5, 0x96, 0x66, 0x69, 0x24, 0xca, 0xe0, 0x10, 0x00,
			0x00, 0x03, 0x00, 0x10, 0x00, 0x00, 0x03, 0x01, 0xe0, 0x80,
		},
		PPS:    []byte{0x44, 0x1, 0xc1, 0x72, 0xb4, 0x62, 0x40},
		Timing: true,
	},
	{ // third set: like the first with another PPS (parameter change without geometry change)
		VPS: []byte{0x40, 0x01, 0x0c, 0x01, 0xff, 0xff, 0x01, 0x60, 0x00, 0x00, 0x03, 0x00, 0x90, 0x00, 0x00, 0x03, 0x00, 0x00, 0x03, 0x00, 0x78, 0x99, 0x98, 0x0a},
		SPS: []byte{
			0x42, 0x01, 0x01, 0x02, 0x20, 0x00, 0x00, 0x03, 0x00, 0xb0, 0x00, 0x00, 0x03, 0x00, 0x00, 0x03,
			0x00, 0x7b, 0xa0, 0x07, 0x82, 0x00, 0x88, 0x7d, 0xb6, 0x71, 0x8b, 0x92, 0x44, 0x80, 0x53, 0x88,
			0x88, 0x92, 0xcf, 0x24, 0xa6, 0x92, 0x72, 0xc9, 0x12, 0x49, 0x22, 0xdc, 0x91, 0xaa, 0x48, 0xfc,
			0xa2, 0x23, 0xff, 0x00, 0x01, 0x00, 0x01, 0x6a, 0x02, 0x02, 0x02, 0x01,
		},
		PPS: []byte{0x44, 0x01, 0xc0, 0x25, 0x2f, 0x05, 0x32, 0x40},
	},
}

// slice templates for the timing-carrying H265 set, taken from mediacommon's DTS extractor
// test; each has a fixed pts-dts distance (in 90 kHz ticks) under that SPS/PPS.
var h265TimingSlices = [][]byte{
	{0x02, 0x01, 0xd0, 0x19, 0x5f, 0x8c, 0xb4, 0x42, 0x49, 0x20, 0x40, 0x11, 0x16, 0x92, 0x93, 0xea, 0x54, 0x57, 0x4e, 0x0a},
	{0x02, 0x01, 0xe0, 0x44, 0x97, 0xe0, 0x81, 0x20, 0x44, 0x52, 0x62, 0x7a, 0x1b, 0x88, 0x0b, 0x21, 0x26, 0x5f, 0x10, 0x9c},
	{0x00, 0x01, 0xe0, 0x24, 0xff, 0xfa, 0x24, 0x0a, 0x42, 0x25, 0x8c, 0x18, 0xe6, 0x1c, 0xea, 0x5a, 0x5d, 0x07, 0xc1, 0x8f},
	{0x02, 0x01, 0xd0, 0x30, 0x97, 0xd7, 0xdc, 0xf9, 0x0c, 0x10, 0x11, 0x11, 0x20, 0x42, 0x11, 0x18, 0x63, 0xa5, 0x18, 0x55},
}
var h265TimingIDR = []byte{0x26, 0x1, 0xaf, 0x8, 0x42, 0x23, 0x48, 0x8a, 0x43, 0xe2}

// H265PTSDelta returns pts-dts (90 kHz ticks) of a unit built from the timing set: 1 = IDR
// template, 2+k = slice template k. Computed with a harness-owned mediacommon extractor.
func H265PTSDelta(template int) int64 {
	ex := &h265.DTSExtractor{}
	ex.Initialize()
	set := h265Sets[1]
	const big = 1 << 40
	if _, err := ex.Extract([][]byte{set.VPS, set.SPS, set.PPS, h265TimingIDR}, big); err != nil {
		panic(err)
	}
	if template <= 1 {
		ex2 := &h265.DTSExtractor{}
		ex2.Initialize()
		d, err := ex2.Extract([][]byte{set.VPS, set.SPS, set.PPS, h265TimingIDR}, big)
		if err != nil {
			panic(err)
		}
		return big - d
	}
	d, err := ex.Extract([][]byte{h265TimingSlices[(template-2)%len(h265TimingSlices)]}, 2*big)
	if err != nil {
		panic(err)
	}
	return 2*big - d
}

var av1SeqHeaders = [][]byte{
	{10, 11, 0, 0, 0, 66, 167, 191, 230, 46, 223, 200, 66},
	{8, 0, 0, 0, 66, 167, 191, 228, 96, 13, 0, 64},
	{0x8, 0x0, 0x0, 0x0, 0x42, 0xab, 0xbf, 0xc3, 0x71, 0xab, 0xe6, 0x1},
	// with a colour description: primaries / transfer / matrix 1.1.1 and 9.16.9 (HDR10); derived
	// from the "amd hardware av1" vector of mediacommon's tests
	{0x08, 0x04, 0x00, 0x00, 0x00, 0x04, 0x00, 0x00, 0x00, 0xf3, 0x00, 0x00, 0x0e, 0x55, 0x77, 0xf8, 0x73, 0xd0, 0x02, 0x7d, 0x10, 0x10, 0x10, 0x10, 0x40},
	{0x08, 0x04, 0x00, 0x00, 0x00, 0x04, 0x00, 0x00, 0x00, 0xf3, 0x00, 0x00, 0x0e, 0x55, 0x77, 0xf8, 0x73, 0xd0, 0x02, 0x7d, 0x10, 0x91, 0x00, 0x90, 0x40},
}

// VP9Params describes a key frame header.
type VP9Params struct {
	Width, Height int
	ColorRange    bool
}

var vp9Sets = []VP9Params{{1920, 1080, false}, {1280, 720, false}, {640, 360, true}, {1920, 1080, true}, {1920, 800, false}, {1280, 1080, false}, {1280, 800, false}}

type bitWriter struct {
	buf  []byte
	nbit int
}

func (w *bitWriter) put(v uint64, n int) {
	for i := n - 1; i >= 0; i-- {
		if w.nbit%8 == 0 {
			w.buf = append(w.buf, 0)
		}
		if (v>>uint(i))&1 == 1 {
			w.buf[len(w.buf)-1] |= 1 << uint(7-w.nbit%8)
		}
		w.nbit++
	}
}

// vp9KeyHeader builds a profile-0 key frame header.
func vp9KeyHeader(p VP9Params) []byte {
	w := &bitWriter{}
	w.put(2, 2) // frame_marker
	w.put(0, 1) // profile low
	w.put(0, 1) // profile high
	w.put(0, 1) // show_existing_frame
	w.put(0, 1) // frame_type: key
	w.put(1, 1) // show_frame
	w.put(0, 1) // error_resilient
	w.put(0x49, 8)
	w.put(0x83, 8)
	w.put(0x42, 8)
	w.put(2, 3) // color_space
	if p.ColorRange {
		w.put(1, 1)
	} else {
		w.put(0, 1)
	}
	w.put(uint64(p.Width-1), 16)
	w.put(uint64(p.Height-1), 16)
	w.put(0, 4)
	return w.buf
}

// ---- unit markers ----------------------------------------------------------------------------

// Marker returns size (>= 8) bytes that identify unit (op, sub) uniquely. No byte is zero and
// none is below 0x10, so NAL units built from it need no emulation prevention and never end
// in a zero byte.
func Marker(op, sub, size int) []byte {
	if size < 8 {
		size = 8
	}
	b := make([]byte, size)
	b[0] = 0xF1
	v := op
	for i := 1; i <= 4; i++ {
		b[i] = byte(v%200) + 0x10
		v /= 200
	}
	b[5] = byte(sub%200) + 0x10
	b[6] = 0xF2
	for i := 7; i < size; i++ {
		b[i] = byte((op*7+sub*13+i)%200) + 0x10
	}
	return b
}

// ---- tracks ----------------------------------------------------------------------------------

// TrackSpec describes one muxer track of a script.
type TrackSpec struct {
	Codec      string `json:"codec"` // h264 h265 av1 vp9 aac opus
	Params     int    `json:"params"`
	SampleRate int    `json:"sample_rate,omitempty"`
	Channels   int    `json:"channels,omitempty"`
	AACType    int    `json:"aac_type,omitempty"`
	Name       string `json:"name,omitempty"`
	Language   string `json:"language,omitempty"`
	IsDefault  bool   `json:"is_default,omitempty"`
}

// IsVideo tells whether the track is a video track.
func (t TrackSpec) IsVideo() bool {
	switch t.Codec {
	case "h264", "h265", "av1", "vp9":
		return true
	}
	return false
}

// ClockRate is the clock rate the harness uses for the track: the container timescale
// (input-domain policy, DESIGN §2.9).
func (t TrackSpec) ClockRate() int {
	switch t.Codec {
	case "aac":
		return t.SampleRate
	case "opus":
		return 48000
	}
	return 90000
}

// ParamSet is the codec parameter state of a video track as the harness sees it.
type ParamSet struct {
	A, B, C []byte // h264: SPS, PPS; h265: VPS, SPS, PPS; av1: sequence header
	VP9     VP9Params
}

// ParamsOf returns parameter set idx of the codec.
func ParamsOf(codec string, idx int) ParamSet {
	switch codec {
	case "h264":
		s, p := H264Params(idx)
		return ParamSet{A: s, B: p}
	case "h265":
		s := h265Sets[idx%len(h265Sets)]
		return ParamSet{A: s.VPS, B: s.SPS, C: s.PPS}
	case "av1":
		return ParamSet{A: av1SeqHeaders[idx%len(av1SeqHeaders)]}
	case "vp9":
		return ParamSet{VP9: vp9Sets[idx%len(vp9Sets)]}
	}
	return ParamSet{}
}

// AV1BogusHeader as in-band index of an AV1 random access op: a sequence header that does not parse.
const AV1BogusHeader = 7777

// NumH264ReorderSets is the number of parameter sets of the H264 reorder family.
const NumH264ReorderSets = 4

// NumParamSets is the number of distinct parameter sets of a codec.
func NumParamSets(codec string) int {
	switch codec {
	case "h264":
		return 10
	case "h265":
		return len(h265Sets)
	case "av1":
		return len(av1SeqHeaders)
	case "vp9":
		return len(vp9Sets)
	}
	return 1
}

// CodecOf builds the gohlslib codec of a track spec (initial parameters = set spec.Params).
func CodecOf(t TrackSpec) codecs.Codec {
	ps := ParamsOf(t.Codec, t.Params)
	switch t.Codec {
	case "h264":
		return &codecs.H264{SPS: ps.A, PPS: ps.B}
	case "h265":
		return &codecs.H265{VPS: ps.A, SPS: ps.B, PPS: ps.C}
	case "av1":
		return &codecs.AV1{SequenceHeader: ps.A}
	case "vp9":
		return &codecs.VP9{Width: ps.VP9.Width, Height: ps.VP9.Height, Profile: 0, BitDepth: 8, ChromaSubsampling: 1, ColorRange: ps.VP9.ColorRange}
	case "aac":
		typ := t.AACType
		if typ == 0 {
			typ = 2
		}
		return &codecs.MPEG4Audio{Config: mpeg4audio.Config{Type: mpeg4audio.ObjectType(typ), SampleRate: t.SampleRate, ChannelCount: t.Channels}}
	case "opus":
		return &codecs.Opus{ChannelCount: t.Channels}
	}
	panic("unknown codec " + t.Codec)
}

// CodecOfParams builds a codec object of the track's type carrying parameter set ps.
func CodecOfParams(t TrackSpec, ps ParamSet) codecs.Codec {
	switch t.Codec {
	case "h264":
		return &codecs.H264{SPS: ps.A, PPS: ps.B}
	case "h265":
		return &codecs.H265{VPS: ps.A, SPS: ps.B, PPS: ps.C}
	case "av1":
		return &codecs.AV1{SequenceHeader: ps.A}
	case "vp9":
		return &codecs.VP9{Width: ps.VP9.Width, Height: ps.VP9.Height, Profile: 0, BitDepth: 8, ChromaSubsampling: 1, ColorRange: ps.VP9.ColorRange}
	}
	return CodecOf(t)
}

// ---- units -----------------------------------------------------------------------------------

// Unit kinds of video ops.
const (
	KindRA        = "ra"     // random access unit (with in-band parameters when Op.InBand >= 0)
	KindInter     = "inter"  // non random access unit
	KindParamOnly = "params" // parameter-only unit (h264/h265): no picture
	KindSEI       = "sei"    // h264: SEI only, not a media unit
)

// BuildVideo builds the access unit / temporal unit / frame of a video op. inBand >= 0
// prepends parameter set inBand. tmpl (H265 only): 0 = plain unit (dts = pts sets), 1 = IDR of
// the timing set, 2+k = slice template k of the timing set.
func BuildVideo(codec string, kind string, inBand int, tmpl int, marker []byte) [][]byte {
	switch codec {
	case "h264":
		var au [][]byte
		if inBand >= 0 {
			s, p := H264Params(inBand)
			au = append(au, s, p)
		}
		if tmpl >= 1 && (kind == KindRA || kind == KindInter) {
			// reorder family: tmpl-1 = poc<<2 | slice kind
			k, poc := (tmpl-1)&3, (tmpl-1)>>2
			if kind == KindRA {
				k = 0
			}
			return append(au, H264Slice(k, poc, marker))
		}
		switch kind {
		case KindRA:
			au = append(au, append([]byte{0x65}, marker...))
		case KindInter:
			au = append(au, append([]byte{0x41}, marker...))
		case KindSEI:
			au = append(au, append([]byte{0x06}, marker...))
		case KindParamOnly:
		}
		return au
	case "h265":
		var au [][]byte
		if inBand >= 0 {
			s := h265Sets[inBand%len(h265Sets)]
			au = append(au, s.VPS, s.SPS, s.PPS)
		}
		timing := tmpl >= 1
		switch kind {
		case KindRA:
			if timing {
				au = append(au, append(append([]byte{}, h265TimingIDR...), marker...))
			} else {
				hdr := []byte{byte(h265.NALUType_IDR_W_RADL) << 1, 0x01}
				if len(marker) > 0 && marker[len(marker)-1]%3 == 0 {
					hdr[0] = byte(h265.NALUType_CRA_NUT) << 1
				}
				au = append(au, append(hdr, marker...))
			}
		case KindInter:
			if timing && tmpl >= 2 {
				au = append(au, append(append([]byte{}, h265TimingSlices[(tmpl-2)%len(h265TimingSlices)]...), marker...))
			} else {
				au = append(au, append([]byte{byte(h265.NALUType_TRAIL_R) << 1, 0x01}, marker...))
			}
		}
		return au
	case "av1":
		var tu [][]byte
		if tmpl >= 1 {
			// a temporal delimiter OBU first (what encoders emit at the start of every temporal unit)
			tu = append(tu, []byte{2 << 3})
		}
		if kind == KindRA && inBand == AV1BogusHeader {
			// an OBU with the type of a sequence header that WriteAV1 accepts and the init writer
			// cannot parse (C07: a rotation that fails while generating the init file)
			tu = append(tu, []byte{0x0a, 0x01, 0x00})
		} else if kind == KindRA {
			idx := inBand
			if idx < 0 {
				idx = 0
			}
			tu = append(tu, av1SeqHeaders[idx%len(av1SeqHeaders)])
		}
		// OBU_FRAME without size field; the container adds it
		tu = append(tu, append([]byte{6 << 3}, marker...))
		return tu
	case "vp9":
		if kind == KindRA {
			idx := inBand
			if idx < 0 {
				idx = 0
			}
			return [][]byte{append(vp9KeyHeader(vp9Sets[idx%len(vp9Sets)]), marker...)}
		}
		return [][]byte{append([]byte{0x86}, marker...)}
	}
	panic("BuildVideo: unknown codec " + codec)
}

// OpusPacket builds a packet with the given TOC config (0..31), frame count code and marker.
func OpusPacket(config int, frames int, marker []byte) []byte {
	toc := byte(config<<3) & 0xf8
	switch frames {
	case 1:
		return append([]byte{toc}, marker...)
	case 2:
		return append([]byte{toc | 1}, marker...)
	default:
		return append([]byte{toc | 3, byte(frames & 63)}, marker...)
	}
}

// ContainerPayload is the fMP4 sample payload of a written video unit (what mediacommon's
// Fill* helpers produce; computed by the harness, not by gohlslib).
func ContainerPayload(codec string, au [][]byte) ([]byte, error) {
	switch codec {
	case "h264", "h265":
		return h264.AVCC(au).Marshal()
	case "av1":
		return av1.Bitstream(au).Marshal()
	case "vp9":
		if len(au) != 1 {
			return nil, fmt.Errorf("vp9 unit must be one frame")
		}
		return au[0], nil
	}
	return nil, fmt.Errorf("ContainerPayload: %s", codec)
}
