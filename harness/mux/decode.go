package mux

import (
	"bytes"
	"context"
	"errors"
	"fmt"

	"github.com/asticode/go-astits"
	"github.com/bluenviron/mediacommon/v2/pkg/codecs/h264"
	"github.com/bluenviron/mediacommon/v2/pkg/codecs/mpeg4audio"
	"github.com/bluenviron/mediacommon/v2/pkg/formats/fmp4"
)

// DUnit is a unit decoded from served media.
type DUnit struct {
	TrackID int // fMP4: track id inside the stream; MPEG-TS: 1-based index of the track in the PMT
	DTS     int64
	PTSOff  int64
	Dur     int64
	Sync    bool
	Payload []byte   // fMP4 sample payload
	Parts   [][]byte // MPEG-TS NALUs / AUs
	Frag    int      // index of the fragment (moof) inside the file
	FragSeq uint32   // mfhd sequence number
}

// DFrag describes one fragment of an fMP4 file.
type DFrag struct {
	Seq    uint32
	Tracks []DFragTrack
}

// DFragTrack is one traf of a fragment.
type DFragTrack struct {
	ID       int
	BaseTime uint64
	N        int
	DurSum   uint64
}

// DecodeFMP4 decodes the fragments of an fMP4 segment or part.
func DecodeFMP4(b []byte) ([]DFrag, []DUnit, error) {
	var parts fmp4.Parts
	if err := parts.Unmarshal(b); err != nil {
		return nil, nil, err
	}
	var frags []DFrag
	var units []DUnit
	for fi, p := range parts {
		f := DFrag{Seq: p.SequenceNumber}
		for _, t := range p.Tracks {
			ft := DFragTrack{ID: t.ID, BaseTime: t.BaseTime, N: len(t.Samples)}
			dts := int64(t.BaseTime)
			for _, s := range t.Samples {
				units = append(units, DUnit{TrackID: t.ID, DTS: dts, PTSOff: int64(s.PTSOffset), Dur: int64(s.Duration), Sync: !s.IsNonSyncSample, Payload: s.Payload, Frag: fi, FragSeq: p.SequenceNumber})
				dts += int64(s.Duration)
				ft.DurSum += uint64(s.Duration)
			}
			f.Tracks = append(f.Tracks, ft)
		}
		frags = append(frags, f)
	}
	return frags, units, nil
}

// DecodeInit decodes an fMP4 init file.
func DecodeInit(b []byte) (*fmp4.Init, error) {
	var init fmp4.Init
	if err := init.Unmarshal(bytes.NewReader(b)); err != nil {
		return nil, err
	}
	return &init, nil
}

// TSInfo describes a decoded MPEG-TS segment.
type TSInfo struct {
	Codecs       []string // per PMT track: h264 | aac | other
	PATFirst     bool     // first packet is the PAT, second the PMT
	DecodeErrs   []string
	FirstVideoRA bool
}

// DecodeTS decodes one MPEG-TS segment with a fresh demuxer (so the segment must be
// independently decodable: PAT and PMT inside) and returns its units in stream order. It
// uses the astits demuxer directly rather than mediacommon's Reader, whose track discovery
// needs at least one packet of every audio track inside the segment.
func DecodeTS(b []byte) (*TSInfo, []DUnit, error) {
	info := &TSInfo{}
	if len(b) >= 376 && len(b)%188 == 0 {
		pid0 := (int(b[1]&0x1f) << 8) | int(b[2])
		info.PATFirst = b[0] == 0x47 && pid0 == 0 && b[188] == 0x47
		if info.PATFirst {
			pid1 := (int(b[189]&0x1f) << 8) | int(b[190])
			info.PATFirst = pid1 != 0 && pid1 != 0x1fff
		}
	}
	if len(b)%188 != 0 {
		return info, nil, fmt.Errorf("segment size %d is not a multiple of 188", len(b))
	}
	dem := astits.NewDemuxer(context.Background(), bytes.NewReader(b), astits.DemuxerOptPacketSize(188))
	pidTrack := map[uint16]int{}
	kind := map[uint16]string{}
	var units []DUnit
	gotPMT := false
	for {
		d, err := dem.NextData()
		if err != nil {
			if errors.Is(err, astits.ErrNoMorePackets) {
				break
			}
			return info, units, err
		}
		if d.PMT != nil && !gotPMT {
			gotPMT = true
			for i, es := range d.PMT.ElementaryStreams {
				pidTrack[es.ElementaryPID] = i + 1
				switch es.StreamType {
				case astits.StreamTypeH264Video:
					kind[es.ElementaryPID] = "h264"
				case astits.StreamTypeAACAudio:
					kind[es.ElementaryPID] = "aac"
				default:
					kind[es.ElementaryPID] = "other"
				}
				info.Codecs = append(info.Codecs, kind[es.ElementaryPID])
			}
			continue
		}
		if d.PES == nil {
			continue
		}
		if !gotPMT {
			return info, units, fmt.Errorf("media packet before the PMT")
		}
		id, ok := pidTrack[d.PID]
		if !ok {
			info.DecodeErrs = append(info.DecodeErrs, fmt.Sprintf("PES on unknown pid %d", d.PID))
			continue
		}
		oh := d.PES.Header.OptionalHeader
		if oh == nil || oh.PTS == nil {
			info.DecodeErrs = append(info.DecodeErrs, "PES without PTS")
			continue
		}
		pts := oh.PTS.Base
		dts := pts
		if oh.PTSDTSIndicator == astits.PTSDTSIndicatorBothPresent && oh.DTS != nil {
			dts = oh.DTS.Base
		}
		switch kind[d.PID] {
		case "h264":
			var au h264.AnnexB
			if err := au.Unmarshal(d.PES.Data); err != nil {
				info.DecodeErrs = append(info.DecodeErrs, "annex-b: "+err.Error())
				continue
			}
			if len(au) > 0 && len(au[0]) > 0 && au[0][0] == byte(h264.NALUTypeAccessUnitDelimiter) {
				au = au[1:]
			}
			units = append(units, DUnit{TrackID: id, DTS: dts, PTSOff: pts - dts, Parts: au})
		case "aac":
			var pkts mpeg4audio.ADTSPackets
			if err := pkts.Unmarshal(d.PES.Data); err != nil {
				info.DecodeErrs = append(info.DecodeErrs, "adts: "+err.Error())
				continue
			}
			var aus [][]byte
			for _, p := range pkts {
				aus = append(aus, p.AU)
			}
			units = append(units, DUnit{TrackID: id, DTS: pts, Parts: aus})
		}
	}
	if !gotPMT {
		return info, units, fmt.Errorf("no PMT in the segment")
	}
	return info, units, nil
}
