package mux

import (
	"bytes"
	"errors"
	"fmt"

	"github.com/asticode/go-astits"
	"github.com/bluenviron/mediacommon/v2/pkg/formats/fmp4"
	"github.com/bluenviron/mediacommon/v2/pkg/formats/mpegts"
)

// DUnit is a unit decoded from served media.
type DUnit struct {
	TrackID int // fMP4: track id inside the stream; MPEG-TS: 1-based index of the track in the PMT
	DTS     int64
	PTSOff  int64
	Dur     int64
	Sync    bool
	Payload []byte   // fMP4 sample payload
	Parts   [][]byte // MPEG-TS NALUs / AUs
	Frag    int      // index of the fragment (moof) inside the file
	FragSeq uint32   // mfhd sequence number
}

// DFrag describes one fragment of an fMP4 file.
type DFrag struct {
	Seq    uint32
	Tracks []DFragTrack
}

// DFragTrack is one traf of a fragment.
type DFragTrack struct {
	ID       int
	BaseTime uint64
	N        int
	DurSum   uint64
}

// DecodeFMP4 decodes the fragments of an fMP4 segment or part.
func DecodeFMP4(b []byte) ([]DFrag, []DUnit, error) {
	var parts fmp4.Parts
	if err := parts.Unmarshal(b); err != nil {
		return nil, nil, err
	}
	var frags []DFrag
	var units []DUnit
	for fi, p := range parts {
		f := DFrag{Seq: p.SequenceNumber}
		for _, t := range p.Tracks {
			ft := DFragTrack{ID: t.ID, BaseTime: t.BaseTime, N: len(t.Samples)}
			dts := int64(t.BaseTime)
			for _, s := range t.Samples {
				units = append(units, DUnit{TrackID: t.ID, DTS: dts, PTSOff: int64(s.PTSOffset), Dur: int64(s.Duration), Sync: !s.IsNonSyncSample, Payload: s.Payload, Frag: fi, FragSeq: p.SequenceNumber})
				dts += int64(s.Duration)
				ft.DurSum += uint64(s.Duration)
			}
			f.Tracks = append(f.Tracks, ft)
		}
		frags = append(frags, f)
	}
	return frags, units, nil
}

// DecodeInit decodes an fMP4 init file.
func DecodeInit(b []byte) (*fmp4.Init, error) {
	var init fmp4.Init
	if err := init.Unmarshal(bytes.NewReader(b)); err != nil {
		return nil, err
	}
	return &init, nil
}

// TSInfo describes a decoded MPEG-TS segment.
type TSInfo struct {
	Codecs       []string // per PMT track: h264 | aac | other
	PATFirst     bool     // first packet is the PAT, second the PMT
	DecodeErrs   []string
	FirstVideoRA bool
}

// DecodeTS decodes one MPEG-TS segment with a fresh reader (so the segment must be
// independently decodable) and returns its units in stream order.
func DecodeTS(b []byte) (*TSInfo, []DUnit, error) {
	info := &TSInfo{}
	if len(b) >= 376 && len(b)%188 == 0 {
		pid0 := (int(b[1]&0x1f) << 8) | int(b[2])
		info.PATFirst = b[0] == 0x47 && pid0 == 0 && b[188] == 0x47
		if info.PATFirst {
			// second packet must carry the PMT: its pid is announced in the PAT; astits' default is 0x1000
			pid1 := (int(b[189]&0x1f) << 8) | int(b[190])
			info.PATFirst = pid1 != 0 && pid1 != 0x1fff
		}
	}
	r := &mpegts.Reader{R: bytes.NewReader(b)}
	if err := r.Initialize(); err != nil {
		return info, nil, fmt.Errorf("mpegts reader: %w", err)
	}
	var units []DUnit
	r.OnDecodeError(func(err error) { info.DecodeErrs = append(info.DecodeErrs, err.Error()) })
	for i, t := range r.Tracks() {
		id := i + 1
		switch t.Codec.(type) {
		case *mpegts.CodecH264:
			info.Codecs = append(info.Codecs, "h264")
			r.OnDataH264(t, func(pts, dts int64, au [][]byte) error {
				units = append(units, DUnit{TrackID: id, DTS: dts, PTSOff: pts - dts, Parts: au})
				return nil
			})
		case *mpegts.CodecMPEG4Audio:
			info.Codecs = append(info.Codecs, "aac")
			r.OnDataMPEG4Audio(t, func(pts int64, aus [][]byte) error {
				units = append(units, DUnit{TrackID: id, DTS: pts, Parts: aus})
				return nil
			})
		default:
			info.Codecs = append(info.Codecs, "other")
		}
	}
	for {
		err := r.Read()
		if err != nil {
			if errors.Is(err, astits.ErrNoMorePackets) {
				break
			}
			return info, units, err
		}
	}
	return info, units, nil
}
