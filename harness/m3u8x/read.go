package m3u8x

import (
	"fmt"
	"strconv"
	"strings"
	"time"
)

// A neutral reader of media and multivariant playlists, independent of pkg/playlist. It is
// lenient about what it does not know and exact about what it reads: decimal numbers are
// converted to nanoseconds with integer arithmetic.

// ParseDecimalNS converts a decimal-floating-point number of seconds to nanoseconds exactly
// (digits beyond the ninth decimal are truncated).
func ParseDecimalNS(s string) (int64, error) {
	neg := false
	if strings.HasPrefix(s, "-") {
		neg = true
		s = s[1:]
	}
	if s == "" {
		return 0, fmt.Errorf("empty number")
	}
	ip, fp := s, ""
	if i := strings.IndexByte(s, '.'); i >= 0 {
		ip, fp = s[:i], s[i+1:]
	}
	if ip == "" {
		ip = "0"
	}
	for _, c := range ip + fp {
		if c < '0' || c > '9' {
			return 0, fmt.Errorf("bad number %q", s)
		}
	}
	iv, err := strconv.ParseInt(ip, 10, 64)
	if err != nil {
		return 0, err
	}
	if iv > 9_000_000_000 {
		return 0, fmt.Errorf("number too large %q", s)
	}
	if len(fp) > 9 {
		fp = fp[:9]
	}
	for len(fp) < 9 {
		fp += "0"
	}
	fv, _ := strconv.ParseInt(fp, 10, 64)
	v := iv*1_000_000_000 + fv
	if neg {
		v = -v
	}
	return v, nil
}

// XRange is a byte range.
type XRange struct {
	Length uint64
	Start  *uint64
}

func parseRange(s string) (*XRange, error) {
	r := &XRange{}
	a, b, has := strings.Cut(s, "@")
	l, err := strconv.ParseUint(a, 10, 64)
	if err != nil {
		return nil, err
	}
	r.Length = l
	if has {
		st, err := strconv.ParseUint(b, 10, 64)
		if err != nil {
			return nil, err
		}
		r.Start = &st
	}
	return r, nil
}

// XPart is an EXT-X-PART.
type XPart struct {
	DurationNS  int64
	DurText     string
	URI         string
	Independent bool
	Gap         bool
	Range       *XRange
	Line        int
}

// XSegment is a media segment with the tags that apply to it.
type XSegment struct {
	DurationNS    int64
	DurText       string
	Title         string
	URI           string
	Discontinuity bool
	Gap           bool
	DateTime      *time.Time
	DateTimeText  string
	Bitrate       *int64
	Key           []Attr // attribute list of the EXT-X-KEY in force (nil: none seen)
	Range         *XRange
	Parts         []XPart
	Line          int
}

// XHint is an EXT-X-PRELOAD-HINT.
type XHint struct {
	Type   string
	URI    string
	Start  *uint64
	Length *uint64
}

// XMedia is a media playlist.
type XMedia struct {
	Version       *int64
	Independent   bool
	StartOffsetNS *int64
	AllowCache    *string
	Target        *int64
	ServerControl []Attr
	HasServerCtl  bool
	PartTargetNS  *int64
	PartTargetTxt string
	MediaSeq      *int64
	DiscSeq       *int64
	Type          *string
	MapURI        *string
	MapRange      *XRange
	MapLine       int
	Skip          *int64
	Segments      []XSegment
	Parts         []XPart // trailing parts (after the last URI line)
	Hint          *XHint
	Endlist       bool
	TagOrder      []string
}

func parsePart(l Line, ln int) (XPart, error) {
	var p XPart
	attrs, err := ParseAttrs(l.Value)
	if err != nil {
		return p, fmt.Errorf("line %d: %v", ln, err)
	}
	p.Line = ln
	for _, a := range attrs {
		switch a.Name {
		case "DURATION":
			p.DurText = a.Val
			p.DurationNS, err = ParseDecimalNS(a.Val)
			if err != nil {
				return p, err
			}
		case "URI":
			p.URI = a.Val
		case "INDEPENDENT":
			p.Independent = a.Val == "YES"
		case "GAP":
			p.Gap = a.Val == "YES"
		case "BYTERANGE":
			p.Range, err = parseRange(a.Val)
			if err != nil {
				return p, err
			}
		}
	}
	return p, nil
}

func parseDate(s string) (time.Time, error) {
	for _, layout := range []string{"2006-01-02T15:04:05.999999999Z07:00", "2006-01-02T15:04:05.999999999Z0700", "2006-01-02T15:04:05.999999999Z07"} {
		if t, err := time.Parse(layout, s); err == nil {
			return t, nil
		}
	}
	return time.Time{}, fmt.Errorf("bad date-time %q", s)
}

// ParseMedia reads a media playlist.
func ParseMedia(text string) (*XMedia, error) {
	lines := Lex(text)
	if len(lines) == 0 || lines[0].Text != "#EXTM3U" {
		return nil, fmt.Errorf("missing #EXTM3U")
	}
	m := &XMedia{}
	var cur XSegment
	var key []Attr
	num := func(s string) (*int64, error) {
		v, err := strconv.ParseInt(s, 10, 64)
		if err != nil {
			return nil, err
		}
		return &v, nil
	}
	for i := 1; i < len(lines); i++ {
		l := lines[i]
		var err error
		switch l.Kind {
		case URI:
			cur.URI = l.Text
			cur.Key = key
			cur.Line = i + 1
			m.Segments = append(m.Segments, cur)
			cur = XSegment{}
			continue
		case Tag:
		default:
			continue
		}
		m.TagOrder = append(m.TagOrder, l.Name)
		switch l.Name {
		case "EXT-X-VERSION":
			m.Version, err = num(l.Value)
		case "EXT-X-INDEPENDENT-SEGMENTS":
			m.Independent = true
		case "EXT-X-START":
			var attrs []Attr
			attrs, err = ParseAttrs(l.Value)
			if a, ok := Get(attrs, "TIME-OFFSET"); ok && err == nil {
				var v int64
				v, err = ParseDecimalNS(a.Val)
				m.StartOffsetNS = &v
			}
		case "EXT-X-ALLOW-CACHE":
			v := l.Value
			m.AllowCache = &v
		case "EXT-X-TARGETDURATION":
			m.Target, err = num(l.Value)
		case "EXT-X-SERVER-CONTROL":
			m.HasServerCtl = true
			if l.Value != "" {
				m.ServerControl, err = ParseAttrs(l.Value)
			}
		case "EXT-X-PART-INF":
			var attrs []Attr
			attrs, err = ParseAttrs(l.Value)
			if a, ok := Get(attrs, "PART-TARGET"); ok && err == nil {
				var v int64
				v, err = ParseDecimalNS(a.Val)
				m.PartTargetNS = &v
				m.PartTargetTxt = a.Val
			}
		case "EXT-X-MEDIA-SEQUENCE":
			m.MediaSeq, err = num(l.Value)
		case "EXT-X-DISCONTINUITY-SEQUENCE":
			m.DiscSeq, err = num(l.Value)
		case "EXT-X-PLAYLIST-TYPE":
			v := l.Value
			m.Type = &v
		case "EXT-X-MAP":
			var attrs []Attr
			attrs, err = ParseAttrs(l.Value)
			if err == nil {
				if a, ok := Get(attrs, "URI"); ok {
					v := a.Val
					m.MapURI = &v
					m.MapLine = i + 1
				}
				if a, ok := Get(attrs, "BYTERANGE"); ok {
					m.MapRange, err = parseRange(a.Val)
				}
			}
		case "EXT-X-SKIP":
			var attrs []Attr
			attrs, err = ParseAttrs(l.Value)
			if a, ok := Get(attrs, "SKIPPED-SEGMENTS"); ok && err == nil {
				m.Skip, err = num(a.Val)
			}
		case "EXT-X-KEY":
			key, err = ParseAttrs(l.Value)
		case "EXT-X-DISCONTINUITY":
			cur.Discontinuity = true
		case "EXT-X-GAP":
			cur.Gap = true
		case "EXT-X-PROGRAM-DATE-TIME":
			var t time.Time
			t, err = parseDate(l.Value)
			cur.DateTime = &t
			cur.DateTimeText = l.Value
		case "EXT-X-BITRATE":
			cur.Bitrate, err = num(l.Value)
		case "EXTINF":
			d, title, _ := strings.Cut(l.Value, ",")
			cur.DurText = d
			cur.Title = title
			cur.DurationNS, err = ParseDecimalNS(d)
		case "EXT-X-BYTERANGE":
			cur.Range, err = parseRange(l.Value)
		case "EXT-X-PART":
			var p XPart
			p, err = parsePart(l, i+1)
			cur.Parts = append(cur.Parts, p)
		case "EXT-X-PRELOAD-HINT":
			var attrs []Attr
			attrs, err = ParseAttrs(l.Value)
			if err == nil {
				h := &XHint{}
				for _, a := range attrs {
					switch a.Name {
					case "TYPE":
						h.Type = a.Val
					case "URI":
						h.URI = a.Val
					case "BYTERANGE-START":
						var v uint64
						v, err = strconv.ParseUint(a.Val, 10, 64)
						h.Start = &v
					case "BYTERANGE-LENGTH":
						var v uint64
						v, err = strconv.ParseUint(a.Val, 10, 64)
						h.Length = &v
					}
				}
				m.Hint = h
			}
		case "EXT-X-ENDLIST":
			m.Endlist = true
		}
		if err != nil {
			return nil, fmt.Errorf("line %d (%s): %v", i+1, l.Name, err)
		}
	}
	m.Parts = cur.Parts
	return m, nil
}

// XVariant is an EXT-X-STREAM-INF with its URI.
type XVariant struct {
	Attrs []Attr
	URI   string
}

// XMulti is a multivariant playlist.
type XMulti struct {
	Version       *int64
	Independent   bool
	StartOffsetNS *int64
	Variants      []XVariant
	Renditions    [][]Attr
}

// ParseMulti reads a multivariant playlist.
func ParseMulti(text string) (*XMulti, error) {
	lines := Lex(text)
	if len(lines) == 0 || lines[0].Text != "#EXTM3U" {
		return nil, fmt.Errorf("missing #EXTM3U")
	}
	m := &XMulti{}
	for i := 1; i < len(lines); i++ {
		l := lines[i]
		if l.Kind != Tag {
			continue
		}
		switch l.Name {
		case "EXT-X-VERSION":
			v, err := strconv.ParseInt(l.Value, 10, 64)
			if err != nil {
				return nil, err
			}
			m.Version = &v
		case "EXT-X-INDEPENDENT-SEGMENTS":
			m.Independent = true
		case "EXT-X-START":
			attrs, err := ParseAttrs(l.Value)
			if err != nil {
				return nil, err
			}
			if a, ok := Get(attrs, "TIME-OFFSET"); ok {
				v, err := ParseDecimalNS(a.Val)
				if err != nil {
					return nil, err
				}
				m.StartOffsetNS = &v
			}
		case "EXT-X-MEDIA":
			attrs, err := ParseAttrs(l.Value)
			if err != nil {
				return nil, fmt.Errorf("line %d: %v", i+1, err)
			}
			m.Renditions = append(m.Renditions, attrs)
		case "EXT-X-STREAM-INF":
			attrs, err := ParseAttrs(l.Value)
			if err != nil {
				return nil, fmt.Errorf("line %d: %v", i+1, err)
			}
			if i+1 >= len(lines) || lines[i+1].Kind != URI {
				return nil, fmt.Errorf("line %d: EXT-X-STREAM-INF without URI line", i+1)
			}
			m.Variants = append(m.Variants, XVariant{Attrs: attrs, URI: lines[i+1].Text})
			i++
		}
	}
	return m, nil
}
