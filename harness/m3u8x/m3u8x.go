// Package m3u8x is an M3U8 reader written for the verification harness. It shares no code
// with github.com/bluenviron/gohlslib/v2/pkg/playlist: it is the independent second
// reader used by the muxer oracles, and its Strict function is the independent grammar of
// property C15 (RFC 8216 and draft-pantos-hls-rfc8216bis).
package m3u8x

import (
	"fmt"
	"regexp"
	"strings"
	"unicode/utf8"
)

// LineKind classifies a playlist line.
type LineKind int

// line kinds.
const (
	Blank LineKind = iota
	Comment
	Tag
	URI
)

// Attr is one attribute of an attribute list.
type Attr struct {
	Name   string
	Raw    string // text as written (with quotes)
	Quoted bool
	Val    string // text without quotes
}

// Line is one lexed line.
type Line struct {
	Kind    LineKind
	Text    string // the whole line, without line terminator
	Name    string // tag name without '#', e.g. EXT-X-PART
	Value   string // everything after the first ':' (empty when there is none)
	HasVal  bool
	Attrs   []Attr // filled by ParseAttrs on demand
	AttrErr string
}

// SplitLines splits on LF and strips one trailing CR (RFC 8216 4.1: lines end with LF or CRLF).
func SplitLines(text string) []string {
	var out []string
	for len(text) > 0 {
		i := strings.IndexByte(text, '\n')
		var l string
		if i < 0 {
			l, text = text, ""
		} else {
			l, text = text[:i], text[i+1:]
		}
		l = strings.TrimSuffix(l, "\r")
		out = append(out, l)
	}
	return out
}

// Lex turns text into lines.
func Lex(text string) []Line {
	var out []Line
	for _, l := range SplitLines(text) {
		switch {
		case l == "":
			out = append(out, Line{Kind: Blank})
		case strings.HasPrefix(l, "#EXT"):
			ln := Line{Kind: Tag, Text: l}
			body := l[1:]
			if i := strings.IndexByte(body, ':'); i >= 0 {
				ln.Name, ln.Value, ln.HasVal = body[:i], body[i+1:], true
			} else {
				ln.Name = body
			}
			out = append(out, ln)
		case strings.HasPrefix(l, "#"):
			out = append(out, Line{Kind: Comment, Text: l})
		default:
			out = append(out, Line{Kind: URI, Text: l})
		}
	}
	return out
}

var attrNameRe = regexp.MustCompile(`^[A-Z0-9-]+$`)

// ParseAttrs tokenizes an attribute list (RFC 8216 4.2). strict rejects empty items,
// duplicate names, names outside [A-Z0-9-] and anything but a comma between items.
func ParseAttrs(v string) ([]Attr, error) {
	var out []Attr
	seen := map[string]bool{}
	if v == "" {
		return nil, fmt.Errorf("empty attribute list")
	}
	for {
		i := strings.IndexByte(v, '=')
		if i < 0 {
			return out, fmt.Errorf("attribute without '=' in %q", v)
		}
		name := v[:i]
		v = v[i+1:]
		if !attrNameRe.MatchString(name) {
			return out, fmt.Errorf("bad attribute name %q", name)
		}
		if seen[name] {
			return out, fmt.Errorf("duplicate attribute %s", name)
		}
		seen[name] = true
		var a Attr
		a.Name = name
		if strings.HasPrefix(v, `"`) {
			j := strings.IndexByte(v[1:], '"')
			if j < 0 {
				return out, fmt.Errorf("unterminated quoted-string for %s", name)
			}
			a.Quoted = true
			a.Val = v[1 : 1+j]
			a.Raw = v[:j+2]
			v = v[j+2:]
			if strings.ContainsAny(a.Val, "\r\n") {
				return out, fmt.Errorf("line break inside quoted-string of %s", name)
			}
		} else {
			j := strings.IndexByte(v, ',')
			if j < 0 {
				j = len(v)
			}
			a.Val = v[:j]
			a.Raw = a.Val
			v = v[j:]
			if a.Val == "" {
				return out, fmt.Errorf("empty value for %s", name)
			}
			if strings.ContainsAny(a.Val, "\" \t") {
				return out, fmt.Errorf("unquoted value of %s contains quote or whitespace: %q", name, a.Val)
			}
		}
		out = append(out, a)
		if v == "" {
			return out, nil
		}
		if v[0] != ',' {
			return out, fmt.Errorf("missing comma after %s", name)
		}
		v = v[1:]
		if v == "" {
			return out, fmt.Errorf("trailing comma")
		}
	}
}

// Get returns the attribute called name.
func Get(attrs []Attr, name string) (Attr, bool) {
	for _, a := range attrs {
		if a.Name == name {
			return a, true
		}
	}
	return Attr{}, false
}

// ---- lexical types -----------------------------------------------------------------------

type vtype int

const (
	tInt vtype = iota
	tHex
	tFloat
	tSignedFloat
	tQuoted
	tEnum
	tResolution
	tQuotedOrBareRange // EXT-X-PART BYTERANGE: the draft's grammar and its example disagree
	tQuotedOrNone      // CLOSED-CAPTIONS
	tQuotedRange       // EXT-X-MAP BYTERANGE (RFC 8216 4.3.2.5: quoted-string "n[@o]")
)

var (
	intRe    = regexp.MustCompile(`^[0-9]{1,20}$`)
	hexRe    = regexp.MustCompile(`^0[xX][0-9A-Fa-f]+$`)
	floatRe  = regexp.MustCompile(`^[0-9]+(\.[0-9]+)?$`)
	sfloatRe = regexp.MustCompile(`^-?[0-9]+(\.[0-9]+)?$`)
	resRe    = regexp.MustCompile(`^[0-9]+x[0-9]+$`)
	rangeRe  = regexp.MustCompile(`^[0-9]+(@[0-9]+)?$`)
	dateRe   = regexp.MustCompile(`^[0-9]{4}-[0-9]{2}-[0-9]{2}T[0-9]{2}:[0-9]{2}:[0-9]{2}([.,][0-9]+)?(Z|[+-][0-9]{2}(:?[0-9]{2})?)$`)
	extinfRe = regexp.MustCompile(`^[0-9]+(\.[0-9]+)?,[^\r\n]*$`)
)

func checkType(a Attr, t vtype, enum []string) string {
	switch t {
	case tInt:
		if a.Quoted || !intRe.MatchString(a.Val) {
			return "must be a decimal-integer"
		}
	case tHex:
		if a.Quoted || !hexRe.MatchString(a.Val) {
			return "must be a hexadecimal-sequence"
		}
	case tFloat:
		if a.Quoted || !floatRe.MatchString(a.Val) {
			return "must be a decimal-floating-point"
		}
	case tSignedFloat:
		if a.Quoted || !sfloatRe.MatchString(a.Val) {
			return "must be a signed-decimal-floating-point"
		}
	case tQuoted:
		if !a.Quoted {
			return "must be a quoted-string"
		}
	case tEnum:
		if a.Quoted {
			return "must be an enumerated-string (unquoted)"
		}
		if enum != nil {
			ok := false
			for _, e := range enum {
				if e == a.Val {
					ok = true
				}
			}
			if !ok {
				return fmt.Sprintf("must be one of %v", enum)
			}
		}
	case tResolution:
		if a.Quoted || !resRe.MatchString(a.Val) {
			return "must be a decimal-resolution"
		}
	case tQuotedOrBareRange:
		if !rangeRe.MatchString(a.Val) {
			return "must be a byte range n[@o]"
		}
	case tQuotedRange:
		if !a.Quoted {
			return "must be a quoted-string byte range"
		}
		if !rangeRe.MatchString(a.Val) {
			return "must be a byte range n[@o]"
		}
	case tQuotedOrNone:
		if !a.Quoted && a.Val != "NONE" {
			return "must be a quoted-string or NONE"
		}
	}
	return ""
}

type attrSpec struct {
	t        vtype
	required bool
	enum     []string
}

type tagSpec struct {
	scope    string // "media", "multi", "both"
	max      int    // 0 = any number
	attrs    map[string]attrSpec
	noValue  bool // tag must not have ":value"
	valueRe  *regexp.Regexp
	valueFmt string
}

var yes = []string{"YES"}
var yesNo = []string{"YES", "NO"}

var tags = map[string]tagSpec{
	"EXT-X-VERSION":              {scope: "both", max: 1, valueRe: intRe, valueFmt: "decimal-integer"},
	"EXT-X-INDEPENDENT-SEGMENTS": {scope: "both", max: 1, noValue: true},
	"EXT-X-START": {scope: "both", max: 1, attrs: map[string]attrSpec{
		"TIME-OFFSET": {t: tSignedFloat, required: true}, "PRECISE": {t: tEnum, enum: yesNo}}},
	"EXT-X-TARGETDURATION":         {scope: "media", max: 1, valueRe: intRe, valueFmt: "decimal-integer"},
	"EXT-X-MEDIA-SEQUENCE":         {scope: "media", max: 1, valueRe: intRe, valueFmt: "decimal-integer"},
	"EXT-X-DISCONTINUITY-SEQUENCE": {scope: "media", max: 1, valueRe: intRe, valueFmt: "decimal-integer"},
	"EXT-X-PLAYLIST-TYPE":          {scope: "media", max: 1, valueRe: regexp.MustCompile(`^(EVENT|VOD)$`), valueFmt: "EVENT|VOD"},
	"EXT-X-ALLOW-CACHE":            {scope: "media", max: 1, valueRe: regexp.MustCompile(`^(YES|NO)$`), valueFmt: "YES|NO"},
	"EXT-X-I-FRAMES-ONLY":          {scope: "media", max: 1, noValue: true},
	"EXT-X-ENDLIST":                {scope: "media", max: 1, noValue: true},
	"EXT-X-SERVER-CONTROL": {scope: "media", max: 1, attrs: map[string]attrSpec{
		"CAN-BLOCK-RELOAD": {t: tEnum, enum: yes}, "PART-HOLD-BACK": {t: tFloat}, "HOLD-BACK": {t: tFloat},
		"CAN-SKIP-UNTIL": {t: tFloat}, "CAN-SKIP-DATERANGES": {t: tEnum, enum: yes}}},
	"EXT-X-PART-INF": {scope: "media", max: 1, attrs: map[string]attrSpec{"PART-TARGET": {t: tFloat, required: true}}},
	"EXT-X-SKIP": {scope: "media", max: 1, attrs: map[string]attrSpec{
		"SKIPPED-SEGMENTS": {t: tInt, required: true}, "RECENTLY-REMOVED-DATERANGES": {t: tQuoted}}},
	"EXT-X-MAP": {scope: "media", attrs: map[string]attrSpec{"URI": {t: tQuoted, required: true}, "BYTERANGE": {t: tQuotedRange}}},
	"EXT-X-KEY": {scope: "media", attrs: map[string]attrSpec{
		"METHOD": {t: tEnum, required: true, enum: []string{"NONE", "AES-128", "SAMPLE-AES", "SAMPLE-AES-CTR"}},
		"URI":    {t: tQuoted}, "IV": {t: tHex}, "KEYFORMAT": {t: tQuoted}, "KEYFORMATVERSIONS": {t: tQuoted}}},
	"EXT-X-PROGRAM-DATE-TIME": {scope: "media", valueRe: dateRe, valueFmt: "ISO-8601 date-time with zone"},
	"EXT-X-DISCONTINUITY":     {scope: "media", noValue: true},
	"EXT-X-GAP":               {scope: "media", noValue: true},
	"EXT-X-BITRATE":           {scope: "media", valueRe: intRe, valueFmt: "decimal-integer"},
	"EXT-X-BYTERANGE":         {scope: "media", valueRe: rangeRe, valueFmt: "n[@o]"},
	"EXTINF":                  {scope: "media", valueRe: extinfRe, valueFmt: "duration,[title]"},
	"EXT-X-PART": {scope: "media", attrs: map[string]attrSpec{
		"DURATION": {t: tFloat, required: true}, "URI": {t: tQuoted, required: true},
		"INDEPENDENT": {t: tEnum, enum: yes}, "GAP": {t: tEnum, enum: yes}, "BYTERANGE": {t: tQuotedOrBareRange}}},
	"EXT-X-PRELOAD-HINT": {scope: "media", attrs: map[string]attrSpec{
		"TYPE": {t: tEnum, required: true, enum: []string{"PART", "MAP"}}, "URI": {t: tQuoted, required: true},
		"BYTERANGE-START": {t: tInt}, "BYTERANGE-LENGTH": {t: tInt}}},
	"EXT-X-STREAM-INF": {scope: "multi", attrs: map[string]attrSpec{
		"BANDWIDTH": {t: tInt, required: true}, "AVERAGE-BANDWIDTH": {t: tInt}, "CODECS": {t: tQuoted},
		"RESOLUTION": {t: tResolution}, "FRAME-RATE": {t: tFloat}, "VIDEO": {t: tQuoted}, "AUDIO": {t: tQuoted},
		"SUBTITLES": {t: tQuoted}, "CLOSED-CAPTIONS": {t: tQuotedOrNone}, "HDCP-LEVEL": {t: tEnum},
		"SCORE": {t: tFloat}, "VIDEO-RANGE": {t: tEnum}, "STABLE-VARIANT-ID": {t: tQuoted}, "PROGRAM-ID": {t: tInt}}},
	"EXT-X-MEDIA": {scope: "multi", attrs: map[string]attrSpec{
		"TYPE":     {t: tEnum, required: true, enum: []string{"AUDIO", "VIDEO", "SUBTITLES", "CLOSED-CAPTIONS"}},
		"GROUP-ID": {t: tQuoted, required: true}, "NAME": {t: tQuoted, required: true},
		"LANGUAGE": {t: tQuoted}, "ASSOC-LANGUAGE": {t: tQuoted}, "CHANNELS": {t: tQuoted}, "URI": {t: tQuoted},
		"INSTREAM-ID": {t: tQuoted}, "CHARACTERISTICS": {t: tQuoted}, "STABLE-RENDITION-ID": {t: tQuoted},
		"DEFAULT": {t: tEnum, enum: yesNo}, "AUTOSELECT": {t: tEnum, enum: yesNo}, "FORCED": {t: tEnum, enum: yesNo}}},
}

// Strict checks text against the grammar and returns the list of problems (empty: accepted).
func Strict(text string) []string {
	var errs []string
	add := func(ln int, f string, a ...any) {
		errs = append(errs, fmt.Sprintf("line %d: ", ln+1)+fmt.Sprintf(f, a...))
	}
	if !utf8.ValidString(text) {
		errs = append(errs, "not valid UTF-8 (RFC 8216 4.1)")
	}
	if strings.HasPrefix(text, "\xef\xbb\xbf") {
		errs = append(errs, "starts with a BOM (RFC 8216 4.1)")
	}
	lines := Lex(text)
	if len(lines) == 0 || lines[0].Kind != Tag || lines[0].Text != "#EXTM3U" {
		errs = append(errs, "first line is not #EXTM3U")
		return errs
	}
	count := map[string]int{}
	sawMedia, sawMulti := "", ""
	firstSegLine := -1 // line of the first EXTINF / EXT-X-PART / URI (media)
	pendingInf := -1   // line of an EXTINF not yet followed by its URI
	pendingRange := -1
	segScope := map[string]int{} // per-segment tag counts
	streamInfAt := -1
	anyPart, partInf := false, false
	uriLines := 0

	for i := 1; i < len(lines); i++ {
		l := lines[i]
		if streamInfAt >= 0 && l.Kind != URI {
			add(i, "EXT-X-STREAM-INF at line %d is not followed by its URI line", streamInfAt+1)
			streamInfAt = -1
		}
		switch l.Kind {
		case Blank, Comment:
			continue
		case URI:
			uriLines++
			if strings.TrimSpace(l.Text) != l.Text {
				add(i, "URI line with leading/trailing whitespace")
			}
			if streamInfAt >= 0 {
				streamInfAt = -1
				continue
			}
			if sawMulti != "" {
				add(i, "URI line in a multivariant playlist without EXT-X-STREAM-INF")
				continue
			}
			if pendingInf < 0 {
				add(i, "URI line %q is not preceded by EXTINF", l.Text)
			}
			if firstSegLine < 0 {
				firstSegLine = i
			}
			pendingInf, pendingRange = -1, -1
			segScope = map[string]int{}
			continue
		}
		// tag
		if l.Text == "#EXTM3U" {
			add(i, "#EXTM3U repeated")
			continue
		}
		spec, known := tags[l.Name]
		if !known {
			continue // unknown tags must be ignored (RFC 8216 6.3.1)
		}
		count[l.Name]++
		if spec.max > 0 && count[l.Name] > spec.max {
			add(i, "%s appears more than %d time(s)", l.Name, spec.max)
		}
		switch spec.scope {
		case "media":
			if sawMedia == "" {
				sawMedia = l.Name
			}
		case "multi":
			if sawMulti == "" {
				sawMulti = l.Name
			}
		}
		// value syntax
		switch {
		case spec.noValue:
			if l.HasVal {
				add(i, "%s must not carry a value", l.Name)
			}
		case spec.valueRe != nil:
			if !l.HasVal || !spec.valueRe.MatchString(l.Value) {
				add(i, "%s value %q is not a %s", l.Name, l.Value, spec.valueFmt)
			}
		case spec.attrs != nil:
			if !l.HasVal {
				add(i, "%s without attribute list", l.Name)
				break
			}
			attrs, err := ParseAttrs(l.Value)
			if err != nil {
				add(i, "%s: malformed attribute list: %v", l.Name, err)
				break
			}
			for _, a := range attrs {
				as, ok := spec.attrs[a.Name]
				if !ok {
					continue // unknown attributes must be ignored
				}
				if m := checkType(a, as.t, as.enum); m != "" {
					add(i, "%s: attribute %s=%s %s", l.Name, a.Name, a.Raw, m)
				}
			}
			for n, as := range spec.attrs {
				if as.required {
					if _, ok := Get(attrs, n); !ok {
						add(i, "%s: required attribute %s missing", l.Name, n)
					}
				}
			}
			checkTagSemantics(l.Name, attrs, func(f string, a ...any) { add(i, f, a...) })
		}
		// placement
		switch l.Name {
		case "EXTINF":
			if pendingInf >= 0 {
				add(i, "two EXTINF tags for one segment")
			}
			pendingInf = i
			if firstSegLine < 0 {
				firstSegLine = i
			}
		case "EXT-X-PART":
			anyPart = true
			if firstSegLine < 0 {
				firstSegLine = i
			}
			if pendingInf >= 0 {
				add(i, "EXT-X-PART between EXTINF and its URI line")
			}
		case "EXT-X-PART-INF":
			partInf = true
		case "EXT-X-BYTERANGE":
			if pendingRange >= 0 {
				add(i, "two EXT-X-BYTERANGE tags for one segment")
			}
			pendingRange = i
		case "EXT-X-MEDIA-SEQUENCE", "EXT-X-DISCONTINUITY-SEQUENCE", "EXT-X-SKIP":
			if firstSegLine >= 0 {
				add(i, "%s after the first media segment (line %d)", l.Name, firstSegLine+1)
			}
		case "EXT-X-PROGRAM-DATE-TIME", "EXT-X-DISCONTINUITY", "EXT-X-GAP":
			segScope[l.Name]++
			if segScope[l.Name] > 1 {
				add(i, "%s twice for one segment", l.Name)
			}
		case "EXT-X-STREAM-INF":
			streamInfAt = i
		}
	}
	if streamInfAt >= 0 {
		errs = append(errs, fmt.Sprintf("EXT-X-STREAM-INF at line %d is not followed by its URI line", streamInfAt+1))
	}
	if pendingInf >= 0 {
		errs = append(errs, fmt.Sprintf("EXTINF at line %d has no URI line", pendingInf+1))
	}
	if pendingRange >= 0 {
		errs = append(errs, fmt.Sprintf("EXT-X-BYTERANGE at line %d has no URI line", pendingRange+1))
	}
	if sawMedia != "" && sawMulti != "" {
		errs = append(errs, fmt.Sprintf("playlist mixes media tag %s and multivariant tag %s", sawMedia, sawMulti))
	}
	if sawMedia != "" && sawMulti == "" {
		if count["EXT-X-TARGETDURATION"] != 1 {
			errs = append(errs, "media playlist without exactly one EXT-X-TARGETDURATION")
		}
		if anyPart && !partInf {
			errs = append(errs, "EXT-X-PART without EXT-X-PART-INF")
		}
	}
	return errs
}

func checkTagSemantics(name string, attrs []Attr, add func(string, ...any)) {
	has := func(n string) bool { _, ok := Get(attrs, n); return ok }
	val := func(n string) string { a, _ := Get(attrs, n); return a.Val }
	switch name {
	case "EXT-X-KEY":
		if val("METHOD") == "NONE" {
			if len(attrs) != 1 {
				add("EXT-X-KEY: METHOD=NONE with other attributes")
			}
		} else if has("METHOD") && !has("URI") {
			add("EXT-X-KEY: URI required unless METHOD=NONE")
		}
	case "EXT-X-MEDIA":
		switch val("TYPE") {
		case "CLOSED-CAPTIONS":
			if has("URI") {
				add("EXT-X-MEDIA: URI forbidden for CLOSED-CAPTIONS")
			}
			if !has("INSTREAM-ID") {
				add("EXT-X-MEDIA: INSTREAM-ID required for CLOSED-CAPTIONS")
			}
		case "SUBTITLES":
			if !has("URI") {
				add("EXT-X-MEDIA: URI required for SUBTITLES")
			}
		}
		if val("TYPE") != "CLOSED-CAPTIONS" && has("INSTREAM-ID") {
			add("EXT-X-MEDIA: INSTREAM-ID only for CLOSED-CAPTIONS")
		}
		if val("TYPE") != "AUDIO" && has("CHANNELS") {
			add("EXT-X-MEDIA: CHANNELS only for AUDIO")
		}
	case "EXT-X-SERVER-CONTROL":
		// nothing beyond lexical types
	case "EXT-X-PRELOAD-HINT":
		if val("URI") == "" {
			add("EXT-X-PRELOAD-HINT: empty URI")
		}
	case "EXT-X-PART", "EXT-X-MAP":
		if has("URI") && val("URI") == "" {
			add("%s: empty URI", name)
		}
	}
}
