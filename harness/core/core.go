// Package core is the glue between rapid properties and the /verif driver:
// scenario logging, failure files, evidence statistics, known findings.
//
// Contract with bin/check (environment):
//
//	VERIF_OUT      directory for fail.json / cur.json of this process
//	VERIF_STATS    file receiving this process' statistics (JSON)
//	VERIF_REPLAY   replay file (TestReplay only)
//	VERIF_OPEN     comma separated ids of open known findings that still
//	               reproduce; generators exclude those classes by construction
//	VERIF_TIER     quick | thorough (lets generators scale sizes)
package core

import (
	"crypto/sha256"
	"encoding/binary"
	"encoding/json"
	"fmt"
	"os"
	"path/filepath"
	"sort"
	"strings"
	"sync"
	"testing"

	"pgregory.net/rapid"
)

// Outcome is what executing one scenario produced.
type Outcome struct {
	// Violation is empty when the property held on this scenario.
	Violation string
	// NonTrivial tells whether the scenario satisfies the property's
	// non-triviality rule (stated in the Prop).
	NonTrivial bool
	// Labels classify the case (histogram in the evidence).
	Labels []string
	// Excluded counts sub-cases that were skipped because they fall into an
	// open known finding.
	Excluded int
	// Skip: the scenario was outside the sound domain after all (counted, not
	// evaluated).
	Skip bool
}

// Prop describes one executable property.
type Prop[S any] struct {
	ID   string
	Sub  string // distinguishes several scenario formats of one property (replay dispatch)
	Rule string // generator + non-triviality rule, copied to the evidence
	Draw func(t *rapid.T) S
	Exec func(s S) Outcome
	// CrashLog: write the scenario to cur.json before executing it, so that a
	// crash of the whole process leaves a reproduction behind.
	CrashLog bool
	// SampleEvery: keep at most 4 samples: the first non-trivial ones.
}

type replayFile[S any] struct {
	Property string `json:"property"`
	Sub      string `json:"sub,omitempty"`
	Version  int    `json:"version"`
	Scenario S      `json:"scenario"`
	Message  string `json:"message,omitempty"`
}

type stats struct {
	mu        sync.Mutex
	Property  string            `json:"property"`
	Rule      string            `json:"rule"`
	Evals     int               `json:"evals"`
	Skipped   int               `json:"skipped"`
	Excluded  int               `json:"excluded"`
	NTHashes  map[uint64]bool   `json:"-"`
	NT        []string          `json:"nt_hashes"`
	Labels    map[string]int    `json:"labels"`
	Samples   []json.RawMessage `json:"samples"`
	Extra     map[string]int    `json:"extra"`
	sampleCap int
}

var (
	allStats   = map[string]*stats{}
	allStatsMu sync.Mutex
)

func statsFor(id, rule string) *stats {
	allStatsMu.Lock()
	defer allStatsMu.Unlock()
	st, ok := allStats[id]
	if !ok {
		st = &stats{Property: id, Rule: "", NTHashes: map[uint64]bool{}, Labels: map[string]int{}, Extra: map[string]int{}, sampleCap: 4}
		allStats[id] = st
	}
	return st
}

// AddExtra adds to a free-form counter of the evidence of property id.
func AddExtra(id, key string, n int) {
	st := statsFor(id, "")
	st.mu.Lock()
	st.Extra[key] += n
	st.mu.Unlock()
}

func (st *stats) record(h uint64, o Outcome, scen func() []byte) {
	st.mu.Lock()
	defer st.mu.Unlock()
	if o.Skip {
		st.Skipped++
		for _, l := range o.Labels {
			if strings.HasPrefix(l, "skip:") {
				st.Labels[l]++ // why it left the domain
			}
		}
		return
	}
	st.Evals++
	st.Excluded += o.Excluded
	for _, l := range o.Labels {
		st.Labels[l]++
	}
	if o.NonTrivial {
		if !st.NTHashes[h] {
			st.NTHashes[h] = true
			if len(st.Samples) < st.sampleCap {
				b := scen()
				if len(b) < 6000 {
					st.Samples = append(st.Samples, b)
				} else {
					// long scenarios (hundreds of writes) are sampled by their head
					t, _ := json.Marshal(map[string]any{"scenario_json_head": string(b[:3000]), "scenario_json_bytes": len(b)})
					st.Samples = append(st.Samples, t)
				}
			}
		}
	}
}

// FlushStats writes the statistics of this process to $VERIF_STATS.
func FlushStats() {
	path := os.Getenv("VERIF_STATS")
	if path == "" {
		return
	}
	allStatsMu.Lock()
	defer allStatsMu.Unlock()
	var out []*stats
	for _, st := range allStats {
		st.mu.Lock()
		st.NT = st.NT[:0]
		for h := range st.NTHashes {
			st.NT = append(st.NT, fmt.Sprintf("%016x", h))
		}
		sort.Strings(st.NT)
		out = append(out, st)
	}
	sort.Slice(out, func(i, j int) bool { return out[i].Property < out[j].Property })
	b, _ := json.Marshal(out)
	for _, st := range out {
		st.mu.Unlock()
	}
	_ = os.WriteFile(path, b, 0o644)
}

func hashBytes(b []byte) uint64 {
	s := sha256.Sum256(b)
	return binary.BigEndian.Uint64(s[:8])
}

func outDir() string {
	d := os.Getenv("VERIF_OUT")
	if d == "" {
		d = filepath.Join(os.TempDir(), "verif-out")
	}
	_ = os.MkdirAll(d, 0o755)
	return d
}

func writeReplay[S any](name string, id, sub string, s S, msg string) {
	b, err := json.MarshalIndent(replayFile[S]{Property: id, Sub: sub, Version: 1, Scenario: s, Message: msg}, "", " ")
	if err != nil {
		return
	}
	_ = os.WriteFile(filepath.Join(outDir(), name), b, 0o644)
}

// Run drives p with rapid. Number of cases and seed come from the -rapid.*
// flags set by bin/check.
func Run[S any](t *testing.T, p Prop[S]) {
	st := statsFor(p.ID, p.Rule)
	st.mu.Lock()
	if !strings.Contains(st.Rule, p.Rule) {
		if st.Rule != "" {
			st.Rule += " || "
		}
		st.Rule += p.Rule
	}
	st.mu.Unlock()
	defer FlushStats()
	rapid.Check(t, func(rt *rapid.T) {
		s := p.Draw(rt)
		if p.CrashLog {
			writeReplay("cur.json", p.ID, p.Sub, s, "")
		}
		o := p.Exec(s)
		var enc []byte
		scen := func() []byte {
			if enc == nil {
				enc, _ = json.Marshal(s)
			}
			return enc
		}
		st.record(hashBytes(scen()), o, scen)
		if o.Violation != "" {
			writeReplay("fail.json", p.ID, p.Sub, s, o.Violation)
			rt.Fatalf("VIOLATION %s: %s", p.ID, o.Violation)
		}
	})
}

// Record adds one case of a non-rapid enumeration to the statistics of property id.
func Record[S any](id string, key string, o Outcome, s S) {
	st := statsFor(id, "")
	st.record(hashBytes([]byte(key)), o, func() []byte { b, _ := json.Marshal(s); return b })
}

// WriteFail stores a failing scenario found outside rapid as fail.json.
func WriteFail[S any](id, sub string, s S, msg string) {
	writeReplay("fail.json", id, sub, s, msg)
}

// Replay executes the scenario stored in path without rapid.
func Replay[S any](t *testing.T, p Prop[S], path string) {
	b, err := os.ReadFile(path)
	if err != nil {
		t.Fatalf("replay: %v", err)
	}
	var rf replayFile[S]
	if err := json.Unmarshal(b, &rf); err != nil {
		t.Fatalf("replay: %v", err)
	}
	if rf.Property != p.ID || rf.Sub != p.Sub {
		t.Fatalf("replay: file is for %s/%s, not %s/%s", rf.Property, rf.Sub, p.ID, p.Sub)
	}
	o := p.Exec(rf.Scenario)
	if o.Violation != "" {
		fmt.Printf("REPLAY-VIOLATION %s: %s\n", p.ID, o.Violation)
		t.Fatalf("VIOLATION %s: %s", p.ID, o.Violation)
	}
	fmt.Printf("REPLAY-OK %s\n", p.ID)
}

// ReplayProperty peeks into a replay file and returns its property id.
func ReplayProperty(path string) string {
	b, err := os.ReadFile(path)
	if err != nil {
		return ""
	}
	var rf struct {
		Property string `json:"property"`
		Sub      string `json:"sub"`
	}
	_ = json.Unmarshal(b, &rf)
	if rf.Sub != "" {
		return rf.Property + "/" + rf.Sub
	}
	return rf.Property
}

// Open reports whether the known finding fid is listed as open and still
// reproduces (decided by the driver's regression step and passed through
// VERIF_OPEN).
func Open(fid string) bool {
	for _, f := range strings.Split(os.Getenv("VERIF_OPEN"), ",") {
		if f == fid {
			return true
		}
	}
	return false
}

// Thorough reports whether the thorough tier is running.
func Thorough() bool { return os.Getenv("VERIF_TIER") == "thorough" }

// Failf formats a violation.
func Failf(format string, a ...any) Outcome {
	return Outcome{Violation: fmt.Sprintf(format, a...)}
}
