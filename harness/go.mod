module verifharness

go 1.23

require (
	github.com/bluenviron/gohlslib/v2 v2.0.0
	github.com/bluenviron/mediacommon/v2 v2.1.0
	pgregory.net/rapid v1.3.0
)

replace github.com/bluenviron/gohlslib/v2 => /repo
