package cli

import (
	"bytes"
	"fmt"
	"net/http"
	"strings"
	"sync"
	"time"

	gohlslib "github.com/bluenviron/gohlslib/v2"
	"github.com/bluenviron/gohlslib/v2/pkg/codecs"

	"verifharness/mux"
)

// Delivered is one unit handed to a data callback.
type Delivered struct {
	NoDTS    bool // the callback of this codec carries no DTS
	PTS, DTS int64
	Data     [][]byte
	Abs      time.Time
	AbsOK    bool
	At       time.Duration
	ReqsSeen int // number of requests the server had seen when the unit was delivered
}

// TrackInfo describes a track reported through OnTracks.
type TrackInfo struct {
	Codec     string
	ClockRate int
	Name      string
	Language  string
	IsDefault bool
	Raw       *gohlslib.Track
}

// RunResult is what one client execution produced.
type RunResult struct {
	StartErr       error
	Tracks         []TrackInfo
	OnTracksCalls  int
	Units          [][]Delivered
	WaitErr        error
	WaitReturned   bool
	DecodeErrors   []string
	CallbacksAfter int // user callbacks observed after Wait yielded
	Leaked         []string
	Requests       []ReqLog
	SecondValue    bool // a second value could be received from Wait()
	// ChangedAfterDelivery counts units whose data, kept by the consumer as delivered, no longer
	// equals what it was inside the callback
	ChangedAfterDelivery int
	ChangedExample       string
	CloseHung            bool // a Close() call did not return within 5 s
	Idle                 bool // closed by the harness because nothing happened for RunOpts.MaxIdle
	Stopped              bool // the harness stopped the run through RunOpts.Stop
	Wall                 time.Duration
}

// RunOpts configures a client execution.
type RunOpts struct {
	// Transport, when set, is used instead of Server (no request log, no request hooks)
	Transport http.RoundTripper
	// Stop, when set, ends the run (the client is closed) when it is closed
	Stop        <-chan struct{}
	URI         string
	Server      *Server
	OnTracksErr error
	// CloseWhen, if set, is polled from the data callbacks / request hook: when it returns
	// true the client is closed (once; CloseCalls times in a row).
	CloseAfterUnits int // close after this many delivered units (0 = never)
	CloseInOnTracks bool
	CloseAtRequest  int // close when the server sees this request (-1 = never)
	CloseCalls      int
	CloseAfterWait  bool // close after Wait yielded (EOS / error)
	MaxWait         time.Duration
	// MaxIdle > 0: the harness also closes the client when neither a request nor a delivered unit
	// was seen for that long (RunResult.Idle); MaxWait then only caps the whole run
	MaxIdle        time.Duration
	AfterCloseWait time.Duration // how long Wait() may take after the harness closed the client (default 6 s)
	SkipLeakCheck  bool
	// DecodeErrDelay makes the OnDecodeError callback take that long
	DecodeErrDelay time.Duration
}

func (o RunOpts) afterClose() time.Duration {
	if o.AfterCloseWait > 0 {
		return o.AfterCloseWait
	}
	return 6 * time.Second
}

func codecName(c codecs.Codec) string {
	switch c.(type) {
	case *codecs.H264:
		return "h264"
	case *codecs.H265:
		return "h265"
	case *codecs.AV1:
		return "av1"
	case *codecs.VP9:
		return "vp9"
	case *codecs.MPEG4Audio:
		return "aac"
	case *codecs.Opus:
		return "opus"
	case nil:
		return "nil"
	}
	return fmt.Sprintf("%T", c)
}

// RunClient runs a gohlslib.Client against the scripted server.
func RunClient(o RunOpts) *RunResult {
	res := &RunResult{}
	t0 := time.Now()
	var rt http.RoundTripper = o.Transport
	if o.Server != nil {
		o.Server.ResetClock(t0)
		if rt == nil {
			rt = o.Server
		}
	}
	reqsSeen := func() int {
		if o.Server == nil {
			return 0
		}
		return len(o.Server.Requests())
	}
	// goroutines of earlier clients of this process (left behind by a case that already failed)
	// are not this client's
	preexisting := map[int64]bool{}
	if !o.SkipLeakCheck {
		for _, g := range mux.Goroutines() {
			preexisting[g.ID] = true
		}
	}
	var mu sync.Mutex
	waited := false
	delivered := 0
	// the slices handed to the callbacks, kept as they were given (a consumer may keep them)
	type retainedUnit struct {
		orig, cp [][]byte
		track, n int
	}
	var retained []retainedUnit
	defer func() {
		mu.Lock()
		defer mu.Unlock()
		for _, r := range retained {
			same := len(r.orig) == len(r.cp)
			for k := 0; same && k < len(r.cp); k++ {
				same = bytes.Equal(r.orig[k], r.cp[k])
			}
			if !same {
				res.ChangedAfterDelivery++
				if res.ChangedExample == "" {
					res.ChangedExample = fmt.Sprintf("track %d unit %d", r.track, r.n)
				}
			}
		}
	}()
	var c *gohlslib.Client
	closeOnce := sync.Once{}
	doClose := func() {
		closeOnce.Do(func() {
			n := o.CloseCalls
			if n < 1 {
				n = 1
			}
			done := make(chan struct{})
			go func() {
				defer close(done)
				for i := 0; i < n; i++ {
					c.Close()
				}
			}()
			select {
			case <-done:
			case <-time.After(5 * time.Second):
				// Close blocks (e.g. it waits for the very callback it was called from)
				mu.Lock()
				res.CloseHung = true
				mu.Unlock()
			}
		})
	}
	c = &gohlslib.Client{
		URI:                       o.URI,
		HTTPClient:                &http.Client{Transport: rt},
		OnDownloadPrimaryPlaylist: func(string) {},
		OnDownloadStreamPlaylist:  func(string) {},
		OnDownloadSegment:         func(string) {},
		OnDownloadPart:            func(string) {},
		OnDecodeError: func(err error) {
			if o.DecodeErrDelay > 0 {
				time.Sleep(o.DecodeErrDelay) // a slow user callback
			}
			mu.Lock()
			res.DecodeErrors = append(res.DecodeErrors, err.Error())
			if waited {
				res.CallbacksAfter++
			}
			mu.Unlock()
		},
	}
	c.OnTracks = func(tracks []*gohlslib.Track) error {
		mu.Lock()
		res.OnTracksCalls++
		if waited {
			res.CallbacksAfter++
		}
		res.Units = make([][]Delivered, len(tracks))
		for _, t := range tracks {
			res.Tracks = append(res.Tracks, TrackInfo{Codec: codecName(t.Codec), ClockRate: t.ClockRate, Name: t.Name, Language: t.Language, IsDefault: t.IsDefault, Raw: t})
		}
		mu.Unlock()
		for i, t := range tracks {
			i, t := i, t
			noDTS := false
			rec := func(pts, dts int64, data [][]byte) {
				abs, ok := c.AbsoluteTime(t)
				mu.Lock()
				if waited {
					res.CallbacksAfter++
				}
				cp := make([][]byte, len(data))
				for k := range data {
					cp[k] = append([]byte{}, data[k]...)
				}
				res.Units[i] = append(res.Units[i], Delivered{NoDTS: noDTS, PTS: pts, DTS: dts, Data: cp, Abs: abs, AbsOK: ok, At: time.Since(t0), ReqsSeen: reqsSeen()})
				retained = append(retained, retainedUnit{orig: data, cp: cp, track: i, n: len(res.Units[i]) - 1})
				delivered++
				d := delivered
				mu.Unlock()
				if o.CloseAfterUnits > 0 && d == o.CloseAfterUnits {
					doClose()
				}
			}
			switch t.Codec.(type) {
			case *codecs.H264, *codecs.H265:
			default:
				noDTS = true
			}
			switch t.Codec.(type) {
			case *codecs.H264, *codecs.H265:
				c.OnDataH26x(t, func(pts, dts int64, au [][]byte) { rec(pts, dts, au) })
			case *codecs.AV1:
				c.OnDataAV1(t, func(pts int64, tu [][]byte) { rec(pts, pts, tu) })
			case *codecs.VP9:
				c.OnDataVP9(t, func(pts int64, frame []byte) { rec(pts, pts, [][]byte{frame}) })
			case *codecs.MPEG4Audio:
				c.OnDataMPEG4Audio(t, func(pts int64, aus [][]byte) { rec(pts, pts, aus) })
			case *codecs.Opus:
				c.OnDataOpus(t, func(pts int64, pk [][]byte) { rec(pts, pts, pk) })
			}
		}
		if o.CloseInOnTracks {
			doClose()
		}
		return o.OnTracksErr
	}
	if o.CloseAtRequest >= 0 && o.Server != nil {
		prev := o.Server.OnRequest
		o.Server.OnRequest = func(n int, path string) {
			if prev != nil {
				prev(n, path)
			}
			if n == o.CloseAtRequest {
				doClose()
			}
		}
	}
	if err := c.Start(); err != nil {
		res.StartErr = err
		return res
	}
	maxWait := o.MaxWait
	if maxWait == 0 {
		maxWait = 20 * time.Second
	}
	stopCh := o.Stop
	expired := make(chan string, 1)
	watchDone := make(chan struct{})
	defer close(watchDone)
	go func() {
		lastN, lastAt := -1, time.Now()
		tick := time.NewTicker(100 * time.Millisecond)
		defer tick.Stop()
		for {
			select {
			case <-watchDone:
				return
			case <-tick.C:
			}
			mu.Lock()
			n := reqsSeen() + delivered
			mu.Unlock()
			if n != lastN {
				lastN, lastAt = n, time.Now()
			}
			if time.Since(t0) > maxWait {
				expired <- "total"
				return
			}
			if o.MaxIdle > 0 && time.Since(lastAt) > o.MaxIdle {
				expired <- "idle"
				return
			}
		}
	}()
	select {
	case err := <-c.Wait():
		mu.Lock()
		waited = true
		mu.Unlock()
		res.WaitErr = err
		res.WaitReturned = true
	case <-stopCh:
		doClose()
		select {
		case err := <-c.Wait():
			mu.Lock()
			waited = true
			mu.Unlock()
			res.WaitErr = err
			res.Stopped = true
		case <-time.After(o.afterClose()):
			res.WaitErr = fmt.Errorf("HARNESS: Wait() yields nothing even %v after Close", o.afterClose())
		}
	case why := <-expired:
		// the client keeps running: close it and require termination
		res.Idle = why == "idle"
		doClose()
		select {
		case err := <-c.Wait():
			mu.Lock()
			waited = true
			mu.Unlock()
			res.WaitErr = err
			res.WaitReturned = false // only after the harness closed it
		case <-time.After(o.afterClose()):
			res.WaitErr = fmt.Errorf("HARNESS: Wait() yields nothing even %v after Close", o.afterClose())
		}
	}
	if o.CloseAfterWait {
		doClose()
	}
	// exactly one value
	select {
	case <-c.Wait():
		res.SecondValue = true
	case <-time.After(2 * time.Millisecond):
	}
	// no client goroutine survives the value
	if !o.SkipLeakCheck {
		deadline := time.Now().Add(3 * time.Second)
		for {
			var leaked []string
			for _, g := range mux.Goroutines() {
				if preexisting[g.ID] {
					continue
				}
				if strings.Contains(g.Stack, "gohlslib/v2.(*client") || strings.Contains(g.Stack, "gohlslib/v2.(*Client") {
					if strings.Contains(g.Stack, "verifharness/cli.RunClient(") {
						continue // the harness goroutine calling into the client API
					}
					first := g.Stack
					if i := strings.Index(first, "\n"); i >= 0 {
						first = first[:i]
					}
					fn := ""
					for _, l := range strings.Split(g.Stack, "\n") {
						if strings.Contains(l, "gohlslib/v2.") {
							fn = strings.TrimSpace(l)
							break
						}
					}
					leaked = append(leaked, first+" "+fn)
				}
			}
			if len(leaked) == 0 {
				break
			}
			if time.Now().After(deadline) {
				res.Leaked = leaked
				break
			}
			time.Sleep(2 * time.Millisecond)
		}
	}
	mu.Lock()
	if o.Server != nil {
		res.Requests = o.Server.Requests()
	}
	mu.Unlock()
	res.Wall = time.Since(t0)
	return res
}
