// Package cli holds the client-side machinery of the harness (engine E5): synthetic HLS
// streams built with mediacommon, a scripted in-process HTTP transport with request log and
// fault injection, a recorder around gohlslib.Client, and the reference models for what the
// client must deliver (C10) and which requests it must make (C11).
package cli

import (
	"bytes"
	"fmt"
	"strings"
	"time"

	"github.com/bluenviron/mediacommon/v2/pkg/codecs/mpeg4audio"
	"github.com/bluenviron/mediacommon/v2/pkg/formats/fmp4"
	"github.com/bluenviron/mediacommon/v2/pkg/formats/fmp4/seekablebuffer"
	"github.com/bluenviron/mediacommon/v2/pkg/formats/mpegts"

	"verifharness/mux"
)

// TrackDef is one track of a synthetic playlist.
type TrackDef struct {
	Codec     string `json:"codec"` // h264 h265 av1 vp9 aac opus | ac3 (unsupported, fMP4) | tsopus tsac3 tsmp4v tsmp1v tsh265 (unsupported, MPEG-TS)
	TimeScale int    `json:"timescale"`
	SampleDur int64  `json:"sample_dur"`         // ticks of the timescale (MPEG-TS: 90 kHz ticks)
	StartOff  int64  `json:"start_off"`          // offset of the track's first sample from the stream base, in its ticks (may be negative)
	PTSOffs   []int  `json:"pts_offs,omitempty"` // cyclic list of PTS offsets in ticks (video)
}

// SegShape says how many fragments and samples a segment holds for each track.
type SegShape struct {
	Frags [][]int `json:"frags"` // per track: samples per fragment
	Date  bool    `json:"date"`  // segment carries EXT-X-PROGRAM-DATE-TIME
	// DateSkewMs is added to the date-time of this segment: the wall clock of the origin server is
	// not exactly the media clock (dates of successive segments are then not contiguous)
	DateSkewMs int `json:"date_skew_ms,omitempty"`
}

// PlaylistDef is a media playlist with its media.
type PlaylistDef struct {
	Tracks    []TrackDef `json:"tracks"`
	Segs      []SegShape `json:"segs"`
	ByteRange bool       `json:"byte_range"` // all segments (and the init) in one resource, addressed with byte ranges
	// RangeDrop: bit (segment index % 16) set = the sub-range of that segment is written without
	// its offset when it is not the first one listed (it then continues after the previous one)
	RangeDrop int    `json:"range_drop,omitempty"`
	Name      string `json:"name,omitempty"`
	Language  string `json:"language,omitempty"`
	Default   bool   `json:"default,omitempty"`
}

// StreamDef is a whole synthetic stream.
type StreamDef struct {
	Container  string        `json:"container"` // fmp4 | mpegts
	Multi      bool          `json:"multi"`     // multivariant playlist + leading + renditions
	Lead       PlaylistDef   `json:"lead"`
	Renditions []PlaylistDef `json:"renditions,omitempty"`
	VOD        bool          `json:"vod"`        // EXT-X-PLAYLIST-TYPE:VOD (client starts at the first segment)
	BaseSec    int64         `json:"base_sec"`   // fMP4: base time of the stream in seconds (scaled per track)
	BaseTicks  int64         `json:"base_ticks"` // additional base in leading-track ticks (fMP4) / raw 33-bit start (MPEG-TS)
	// MuxedRendition: the multivariant playlist also lists an audio rendition without URI (its
	// media is the variant's own audio, RFC 8216 4.3.4.1); it adds nothing to fetch
	MuxedRendition bool `json:"muxed_rendition,omitempty"`
}

// ExpUnit is a unit the client must deliver (before time normalisation).
type ExpUnit struct {
	Data   [][]byte
	DTS    int64 // container time in the track's ticks (fMP4: BaseTime-derived; MPEG-TS: unwrapped 90 kHz)
	PTS    int64
	Seg    int
	Marker int
}

// BuiltPlaylist is a playlist ready to be served.
type BuiltPlaylist struct {
	Def       PlaylistDef
	Path      string            // e.g. lead.m3u8
	Files     map[string][]byte // resource path -> bytes
	SegURIs   []string
	SegRanges [][2]uint64 // start,length when ByteRange
	InitURI   string
	InitRange [2]uint64
	SegDur    []time.Duration
	SegDate   []*time.Time
	// Units[track] = expected units in order, over all segments
	Units [][]ExpUnit
	// first container DTS of the leading track in each segment (for AbsoluteTime)
	LeadFirstDTS []int64
	LeadTrack    int
	Supported    []bool // per track: the client must expose it
}

// Built is a stream ready to be served.
type Built struct {
	Def        StreamDef
	Lead       *BuiltPlaylist
	Renditions []*BuiltPlaylist
	Files      map[string][]byte
}

func isVideoCodec(c string) bool {
	switch c {
	case "h264", "h265", "av1", "vp9":
		return true
	}
	return false
}

func isTSVideo(c string) bool {
	switch c {
	case "h264", "tsh265", "tsmp4v", "tsmp1v":
		return true
	}
	return false
}

func leadTrackOf(tracks []TrackDef, container string) int {
	for i, t := range tracks {
		if container == "mpegts" {
			if t.Codec == "h264" {
				return i
			}
		} else if isVideoCodec(t.Codec) {
			return i
		}
	}
	// first supported track for MPEG-TS, first track for fMP4
	if container == "mpegts" {
		for i, t := range tracks {
			if t.Codec == "h264" || t.Codec == "aac" {
				return i
			}
		}
	}
	return 0
}

func fmp4Codec(t TrackDef) fmp4.Codec {
	switch t.Codec {
	case "h264":
		sps, pps := mux.H264Params(0)
		return &fmp4.CodecH264{SPS: sps, PPS: pps}
	case "h265":
		ps := mux.ParamsOf("h265", 0)
		return &fmp4.CodecH265{VPS: ps.A, SPS: ps.B, PPS: ps.C}
	case "av1":
		return &fmp4.CodecAV1{SequenceHeader: mux.ParamsOf("av1", 0).A}
	case "vp9":
		return &fmp4.CodecVP9{Width: 1280, Height: 720, Profile: 0, BitDepth: 8, ChromaSubsampling: 1}
	case "aac":
		return &fmp4.CodecMPEG4Audio{Config: mpeg4audio.Config{Type: 2, SampleRate: 44100, ChannelCount: 2}}
	case "opus":
		return &fmp4.CodecOpus{ChannelCount: 2}
	case "ac3":
		return &fmp4.CodecAC3{SampleRate: 48000, ChannelCount: 2, Fscod: 0, Bsid: 8, Bsmod: 0, Acmod: 2, BitRateCode: 7}
	case "mjpeg":
		return &fmp4.CodecMJPEG{Width: 640, Height: 480}
	case "lpcm":
		return &fmp4.CodecLPCM{BitDepth: 16, SampleRate: 48000, ChannelCount: 2}
	}
	panic("fmp4Codec: " + t.Codec)
}

// SupportedByClient tells whether gohlslib's client exposes tracks of this codec.
func SupportedByClient(container, codec string) bool {
	if container == "mpegts" {
		return codec == "h264" || codec == "aac"
	}
	switch codec {
	case "h264", "h265", "av1", "vp9", "aac", "opus":
		return true
	}
	return false
}

// samplePayload builds the payload of sample number id of a track and the data the client
// must hand to the callback for it.
func samplePayload(container string, t TrackDef, id int, sync bool) (payload []byte, data [][]byte) {
	m := mux.Marker(id, 0, 10+id%7)
	switch t.Codec {
	case "h264", "h265", "av1", "vp9":
		kind := mux.KindInter
		if sync {
			kind = mux.KindRA
		}
		inBand := -1
		if sync {
			inBand = 0
		}
		au := mux.BuildVideo(t.Codec, kind, inBand, 0, m)
		if container == "mpegts" {
			return nil, au
		}
		p, err := mux.ContainerPayload(t.Codec, au)
		if err != nil {
			panic(err)
		}
		switch t.Codec {
		case "av1":
			// the client returns OBUs as stored (with size fields)
			var s fmp4.PartSample
			s.Payload = p
			d, err := s.GetAV1()
			if err != nil {
				panic(err)
			}
			return p, d
		case "vp9":
			return p, [][]byte{p}
		}
		return p, au
	case "opus":
		pkt := mux.OpusPacket(3, 1, m)
		return pkt, [][]byte{pkt}
	case "tsh265", "tsmp4v", "tsmp1v":
		// video of a codec the client has no type for. Its first unit in every segment is a random
		// access unit: the MPEG-TS writer repeats PAT/PMT there when this track carries the PCR,
		// which a well-formed HLS segment needs
		var f []byte
		switch {
		case t.Codec == "tsh265" && sync:
			f = append([]byte{0x26, 0x01}, m...)
		case t.Codec == "tsh265":
			f = append([]byte{0x02, 0x01}, m...)
		case t.Codec == "tsmp4v" && sync:
			f = append([]byte{0, 0, 1, 0xb3, 0, 0, 1, 0xb6}, m...)
		case t.Codec == "tsmp4v":
			f = append([]byte{0, 0, 1, 0xb6}, m...)
		case sync:
			f = append([]byte{0, 0, 1, 0xb8, 0, 0, 1, 0x00}, m...)
		default:
			f = append([]byte{0, 0, 1, 0x00}, m...)
		}
		return f, [][]byte{f}
	case "tsac3":
		// a well-formed AC-3 sync frame: 48 kHz, frmsizecod 0 (128 bytes), bsid 8, 2/0 channels
		f := make([]byte, 128)
		copy(f, []byte{0x0b, 0x77, 0, 0, 0x00, 0x40, 0x40})
		copy(f[8:], m)
		return f, [][]byte{f}
	default:
		return m, [][]byte{m}
	}
}

const dateBase = int64(1_600_000_000_000) // ms

// buildPlaylist builds media and playlist facts of one playlist. baseTicksOf gives the
// stream base in the ticks of a timescale.
func buildPlaylist(def PlaylistDef, container, name string, base func(timescale int) int64, idBase int) (*BuiltPlaylist, error) {
	bp := &BuiltPlaylist{Def: def, Path: name + ".m3u8", Files: map[string][]byte{}}
	nt := len(def.Tracks)
	bp.Units = make([][]ExpUnit, nt)
	bp.Supported = make([]bool, nt)
	for i, t := range def.Tracks {
		bp.Supported[i] = SupportedByClient(container, t.Codec)
	}
	bp.LeadTrack = leadTrackOf(def.Tracks, container)
	cur := make([]int64, nt) // next DTS per track
	for i, t := range def.Tracks {
		ts := t.TimeScale
		if container == "mpegts" {
			ts = 90000
		}
		cur[i] = base(ts) + t.StartOff
	}
	count := make([]int, nt)
	var blobs [][]byte

	var tsw *mpegts.Writer
	var tsTracks []*mpegts.Track
	var tsBuf bytes.Buffer
	if container == "mpegts" {
		for _, t := range def.Tracks {
			switch t.Codec {
			case "h264":
				tsTracks = append(tsTracks, &mpegts.Track{Codec: &mpegts.CodecH264{}})
			case "aac":
				tsTracks = append(tsTracks, &mpegts.Track{Codec: &mpegts.CodecMPEG4Audio{Config: mpeg4audio.Config{Type: 2, SampleRate: 44100, ChannelCount: 2}}})
			case "tsopus":
				tsTracks = append(tsTracks, &mpegts.Track{Codec: &mpegts.CodecOpus{ChannelCount: 2}})
			case "tsac3":
				tsTracks = append(tsTracks, &mpegts.Track{Codec: &mpegts.CodecAC3{SampleRate: 48000, ChannelCount: 2}})
			case "tsmp4v":
				tsTracks = append(tsTracks, &mpegts.Track{Codec: &mpegts.CodecMPEG4Video{}})
			case "tsmp1v":
				tsTracks = append(tsTracks, &mpegts.Track{Codec: &mpegts.CodecMPEG1Video{}})
			case "tsh265":
				tsTracks = append(tsTracks, &mpegts.Track{Codec: &mpegts.CodecH265{}})
			default:
				return nil, fmt.Errorf("codec %s not possible in MPEG-TS", t.Codec)
			}
		}
		tsw = &mpegts.Writer{W: &tsBuf, Tracks: tsTracks}
		if err := tsw.Initialize(); err != nil {
			return nil, err
		}
	}

	for si, sg := range def.Segs {
		segStartLead := cur[bp.LeadTrack]
		bp.LeadFirstDTS = append(bp.LeadFirstDTS, segStartLead)
		var segBytes []byte
		if container == "fmp4" {
			// fragments: fragment k holds, for every track that has a k-th fragment, its samples
			maxFr := 0
			for ti := range def.Tracks {
				if len(sg.Frags[ti]) > maxFr {
					maxFr = len(sg.Frags[ti])
				}
			}
			var parts fmp4.Parts
			for k := 0; k < maxFr; k++ {
				part := &fmp4.Part{SequenceNumber: uint32(si*10 + k)}
				for ti, t := range def.Tracks {
					if k >= len(sg.Frags[ti]) || sg.Frags[ti][k] == 0 {
						continue
					}
					pt := &fmp4.PartTrack{ID: ti + 1, BaseTime: uint64(cur[ti])}
					for n := 0; n < sg.Frags[ti][k]; n++ {
						id := idBase + ti*100000 + count[ti]
						sync := !isVideoCodec(t.Codec) || (k == 0 && n == 0)
						payload, data := samplePayload(container, t, id, sync)
						off := 0
						if len(t.PTSOffs) > 0 {
							off = t.PTSOffs[count[ti]%len(t.PTSOffs)]
						}
						pt.Samples = append(pt.Samples, &fmp4.PartSample{Duration: uint32(t.SampleDur), PTSOffset: int32(off), IsNonSyncSample: !sync, Payload: payload})
						bp.Units[ti] = append(bp.Units[ti], ExpUnit{Data: data, DTS: cur[ti], PTS: cur[ti] + int64(off), Seg: si, Marker: id})
						cur[ti] += t.SampleDur
						count[ti]++
					}
					part.Tracks = append(part.Tracks, pt)
				}
				if len(part.Tracks) > 0 {
					parts = append(parts, part)
				}
			}
			var w seekablebuffer.Buffer
			if err := parts.Marshal(&w); err != nil {
				return nil, err
			}
			segBytes = append([]byte{}, w.Bytes()...)
		} else {
			// MPEG-TS: units of all tracks written in DTS order (what a muxer does)
			tsBuf.Reset()
			type pend struct {
				ti   int
				dts  int64
				pts  int64
				data [][]byte
				id   int
			}
			var all []pend
			for ti, t := range def.Tracks {
				total := 0
				for _, n := range sg.Frags[ti] {
					total += n
				}
				for n := 0; n < total; n++ {
					id := idBase + ti*100000 + count[ti]
					sync := !isTSVideo(t.Codec) || n == 0
					_, data := samplePayload(container, t, id, sync)
					off := 0
					if len(t.PTSOffs) > 0 {
						off = t.PTSOffs[count[ti]%len(t.PTSOffs)]
					}
					all = append(all, pend{ti: ti, dts: cur[ti], pts: cur[ti] + int64(off), data: data, id: id})
					cur[ti] += t.SampleDur
					count[ti]++
				}
			}
			// stable sort by DTS, leading track first on ties
			for i := 1; i < len(all); i++ {
				for j := i; j > 0; j-- {
					a, b := all[j-1], all[j]
					if a.dts > b.dts || (a.dts == b.dts && b.ti == bp.LeadTrack && a.ti != bp.LeadTrack) {
						all[j-1], all[j] = all[j], all[j-1]
					} else {
						break
					}
				}
			}
			for _, u := range all {
				t := def.Tracks[u.ti]
				var err error
				switch t.Codec {
				case "h264":
					err = tsw.WriteH264(tsTracks[u.ti], u.pts&0x1FFFFFFFF, u.dts&0x1FFFFFFFF, u.data)
				case "aac":
					err = tsw.WriteMPEG4Audio(tsTracks[u.ti], u.pts&0x1FFFFFFFF, u.data)
				case "tsopus":
					err = tsw.WriteOpus(tsTracks[u.ti], u.pts&0x1FFFFFFFF, [][]byte{mux.OpusPacket(3, 1, u.data[0])})
				case "tsac3":
					err = tsw.WriteAC3(tsTracks[u.ti], u.pts&0x1FFFFFFFF, u.data[0])
				case "tsmp4v":
					err = tsw.WriteMPEG4Video(tsTracks[u.ti], u.pts&0x1FFFFFFFF, u.data[0])
				case "tsmp1v":
					err = tsw.WriteMPEG1Video(tsTracks[u.ti], u.pts&0x1FFFFFFFF, u.data[0])
				case "tsh265":
					err = tsw.WriteH265(tsTracks[u.ti], u.pts&0x1FFFFFFFF, u.dts&0x1FFFFFFFF, u.data)
				}
				if err != nil {
					return nil, err
				}
				bp.Units[u.ti] = append(bp.Units[u.ti], ExpUnit{Data: u.data, DTS: u.dts, PTS: u.pts, Seg: si, Marker: u.id})
			}
			segBytes = append([]byte{}, tsBuf.Bytes()...)
		}
		blobs = append(blobs, segBytes)
		// duration and date of the segment from the leading track
		lt := def.Tracks[bp.LeadTrack]
		ts := lt.TimeScale
		if container == "mpegts" {
			ts = 90000
		}
		durTicks := cur[bp.LeadTrack] - segStartLead
		bp.SegDur = append(bp.SegDur, time.Duration(durTicks)*time.Second/time.Duration(ts))
		if sg.Date {
			ms := dateBase + (segStartLead-base(ts))*1000/int64(ts) + int64(sg.DateSkewMs)
			d := time.UnixMilli(ms).UTC()
			bp.SegDate = append(bp.SegDate, &d)
		} else {
			bp.SegDate = append(bp.SegDate, nil)
		}
	}

	var initBytes []byte
	if container == "fmp4" {
		init := fmp4.Init{}
		for ti, t := range def.Tracks {
			init.Tracks = append(init.Tracks, &fmp4.InitTrack{ID: ti + 1, TimeScale: uint32(t.TimeScale), Codec: fmp4Codec(t)})
		}
		var w seekablebuffer.Buffer
		if err := init.Marshal(&w); err != nil {
			return nil, err
		}
		initBytes = w.Bytes()
	}
	ext := ".mp4"
	if container == "mpegts" {
		ext = ".ts"
	}
	if def.ByteRange {
		res := name + "_all" + ext
		var all []byte
		if initBytes != nil {
			bp.InitURI = res
			bp.InitRange = [2]uint64{0, uint64(len(initBytes))}
			all = append(all, initBytes...)
		}
		for _, b := range blobs {
			bp.SegURIs = append(bp.SegURIs, res)
			bp.SegRanges = append(bp.SegRanges, [2]uint64{uint64(len(all)), uint64(len(b))})
			all = append(all, b...)
		}
		bp.Files[res] = all
	} else {
		if initBytes != nil {
			bp.InitURI = name + "_init.mp4"
			bp.Files[bp.InitURI] = initBytes
		}
		for i, b := range blobs {
			u := fmt.Sprintf("%s_seg%d%s", name, i, ext)
			bp.SegURIs = append(bp.SegURIs, u)
			bp.Files[u] = b
		}
	}
	return bp, nil
}

// Build builds the whole stream.
func Build(def StreamDef) (*Built, error) {
	b := &Built{Def: def, Files: map[string][]byte{}}
	leadTS := 90000
	if def.Container == "fmp4" {
		leadTS = def.Lead.Tracks[leadTrackOf(def.Lead.Tracks, def.Container)].TimeScale
	}
	base := func(ts int) int64 {
		if def.Container == "mpegts" {
			return def.BaseTicks
		}
		// same instant in every timescale: BaseSec seconds + BaseTicks ticks of the leading timescale
		return def.BaseSec*int64(ts) + def.BaseTicks*int64(ts)/int64(leadTS)
	}
	var err error
	b.Lead, err = buildPlaylist(def.Lead, def.Container, "lead", base, 0)
	if err != nil {
		return nil, err
	}
	for k, v := range b.Lead.Files {
		b.Files[k] = v
	}
	for i, r := range def.Renditions {
		bp, err := buildPlaylist(r, def.Container, fmt.Sprintf("rend%d", i), base, (i+1)*1000000)
		if err != nil {
			return nil, err
		}
		b.Renditions = append(b.Renditions, bp)
		for k, v := range bp.Files {
			b.Files[k] = v
		}
	}
	return b, nil
}

// MediaPlaylistText renders segments [from, to) of bp as a media playlist.
func MediaPlaylistText(bp *BuiltPlaylist, container string, seq int, from, to int, vod, endlist bool, extra []string) string {
	var s strings.Builder
	s.WriteString("#EXTM3U\n#EXT-X-VERSION:7\n")
	maxDur := time.Duration(0)
	for i := from; i < to; i++ {
		if bp.SegDur[i] > maxDur {
			maxDur = bp.SegDur[i]
		}
	}
	td := int((maxDur + time.Second - 1) / time.Second)
	if td < 1 {
		td = 1
	}
	fmt.Fprintf(&s, "#EXT-X-TARGETDURATION:%d\n#EXT-X-MEDIA-SEQUENCE:%d\n", td, seq)
	if vod {
		s.WriteString("#EXT-X-PLAYLIST-TYPE:VOD\n")
	}
	for _, e := range extra {
		s.WriteString(e + "\n")
	}
	if bp.InitURI != "" {
		if bp.Def.ByteRange {
			fmt.Fprintf(&s, "#EXT-X-MAP:URI=\"%s\",BYTERANGE=\"%d@%d\"\n", bp.InitURI, bp.InitRange[1], bp.InitRange[0])
		} else {
			fmt.Fprintf(&s, "#EXT-X-MAP:URI=\"%s\"\n", bp.InitURI)
		}
	}
	for i := from; i < to; i++ {
		if bp.SegDate[i] != nil {
			fmt.Fprintf(&s, "#EXT-X-PROGRAM-DATE-TIME:%s\n", bp.SegDate[i].Format("2006-01-02T15:04:05.000Z07:00"))
		}
		d := bp.SegDur[i].Seconds()
		if d < 0.00001 {
			d = 0.00001
		}
		fmt.Fprintf(&s, "#EXTINF:%.5f,\n", d)
		if bp.Def.ByteRange {
			if i > from && bp.Def.RangeDrop&(1<<(i%16)) != 0 {
				fmt.Fprintf(&s, "#EXT-X-BYTERANGE:%d\n", bp.SegRanges[i][1])
			} else {
				fmt.Fprintf(&s, "#EXT-X-BYTERANGE:%d@%d\n", bp.SegRanges[i][1], bp.SegRanges[i][0])
			}
		}
		s.WriteString(bp.SegURIs[i] + "\n")
	}
	if endlist {
		s.WriteString("#EXT-X-ENDLIST\n")
	}
	return s.String()
}

// MultivariantText renders the multivariant playlist of a stream.
func MultivariantText(b *Built) string {
	var s strings.Builder
	s.WriteString("#EXTM3U\n#EXT-X-VERSION:7\n#EXT-X-INDEPENDENT-SEGMENTS\n\n")
	for i, r := range b.Renditions {
		fmt.Fprintf(&s, "#EXT-X-MEDIA:TYPE=AUDIO,GROUP-ID=\"aud\",NAME=\"%s\"", r.Def.Name)
		if r.Def.Language != "" {
			fmt.Fprintf(&s, ",LANGUAGE=\"%s\"", r.Def.Language)
		}
		if r.Def.Default {
			s.WriteString(",DEFAULT=YES")
		}
		fmt.Fprintf(&s, ",AUTOSELECT=YES,URI=\"rend%d.m3u8\"\n", i)
	}
	if b.Def.MuxedRendition {
		s.WriteString("#EXT-X-MEDIA:TYPE=AUDIO,GROUP-ID=\"aud\",NAME=\"muxed\",AUTOSELECT=YES\n")
	}
	codecs := "avc1.42c028,mp4a.40.2"
	s.WriteString("\n#EXT-X-STREAM-INF:BANDWIDTH=100000,CODECS=\"" + codecs + "\"")
	if len(b.Renditions) > 0 || b.Def.MuxedRendition {
		s.WriteString(",AUDIO=\"aud\"")
	}
	s.WriteString("\nlead.m3u8\n")
	return s.String()
}
