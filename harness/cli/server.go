package cli

import (
	"bytes"
	"context"
	"fmt"
	"io"
	"net/http"
	"strconv"
	"strings"
	"sync"
	"time"
)

// ReqLog is one request seen by the scripted server.
type ReqLog struct {
	N    int    // global index
	URL  string // path?query (host stripped when it is the stream host)
	Host string
	// Scheme of the request URL ("http"); a request without scheme would fail on a real transport
	Scheme string
	Range  string
	At     time.Duration
}

// Fault is an injected fault.
type Fault struct {
	AtReq int    `json:"at_req"` // global request index
	Kind  string `json:"kind"`   // status404 status500 neterr stall truncate
}

// Server is a scripted in-process HTTP transport.
type Server struct {
	mu        sync.Mutex
	start     time.Time
	Log       []ReqLog
	files     map[string][]byte
	playlists map[string][]string // path -> successive snapshots (last one repeats)
	plCount   map[string]int
	faults    map[int]string
	urlFaults []*urlFault
	bases     map[string]uint64
	// OnRequest is called (outside the lock) with the index of each request before it is
	// answered; it may block (used to inject Close at a request).
	OnRequest func(n int, path string)
	Delay     time.Duration
	// TransportErr is what the "neterr" fault returns (default: a plain error)
	TransportErr error
	blockers     []chan struct{}
}

// NewServer creates a server.
func NewServer() *Server {
	return &Server{start: time.Now(), files: map[string][]byte{}, playlists: map[string][]string{}, plCount: map[string]int{}, faults: map[int]string{}}
}

// ResetClock makes request times relative to t0.
func (s *Server) ResetClock(t0 time.Time) { s.start = t0 }

// AddFile registers a static resource.
func (s *Server) AddFile(path string, b []byte) { s.files[path] = b }

// AddFileAt registers a static resource whose bytes are the range [base, base+len(b)) of a much
// larger virtual resource (byte ranges beyond 4 GiB without holding them in memory).
func (s *Server) AddFileAt(path string, b []byte, base uint64) {
	s.files[path] = b
	if s.bases == nil {
		s.bases = map[string]uint64{}
	}
	s.bases[path] = base
}

// AddPlaylist registers the successive snapshots of a playlist.
func (s *Server) AddPlaylist(path string, snapshots ...string) { s.playlists[path] = snapshots }

// AddFault injects a fault at request index n.
func (s *Server) AddFault(f Fault) { s.faults[f.AtReq] = f.Kind }

type urlFault struct {
	substr string
	nth    int // which matching request (0 = first)
	kind   string
	seen   int
	hit    bool
	after  string // the faulty answer is held back until a request containing this was seen (+50 ms)
}

// AddURLFaultAfter is AddURLFault whose answer is held back until a request whose URL contains
// after has been seen (at most 2 s), so that another stream gets ahead first.
func (s *Server) AddURLFaultAfter(substr string, nth int, kind string, after string) {
	s.urlFaults = append(s.urlFaults, &urlFault{substr: substr, nth: nth, kind: kind, after: after})
}

// AddURLFault injects a fault into the nth request whose URL contains substr.
func (s *Server) AddURLFault(substr string, nth int, kind string) {
	s.urlFaults = append(s.urlFaults, &urlFault{substr: substr, nth: nth, kind: kind})
}

// URLFaultsHit tells whether every URL fault was delivered.
func (s *Server) URLFaultsHit() bool {
	s.mu.Lock()
	defer s.mu.Unlock()
	for _, f := range s.urlFaults {
		if !f.hit {
			return false
		}
	}
	return len(s.urlFaults) > 0
}

// Requests returns a copy of the log.
func (s *Server) Requests() []ReqLog {
	s.mu.Lock()
	defer s.mu.Unlock()
	return append([]ReqLog{}, s.Log...)
}

type stallBody struct {
	ctx  context.Context
	data *bytes.Reader
}

func (b *stallBody) Read(p []byte) (int, error) {
	if b.data != nil && b.data.Len() > 0 {
		return b.data.Read(p)
	}
	<-b.ctx.Done()
	return 0, b.ctx.Err()
}
func (b *stallBody) Close() error { return nil }

// RoundTrip implements http.RoundTripper.
func (s *Server) RoundTrip(req *http.Request) (*http.Response, error) {
	path := strings.TrimPrefix(req.URL.Path, "/")
	full := path
	if req.URL.RawQuery != "" {
		full += "?" + req.URL.RawQuery
	}
	s.mu.Lock()
	n := len(s.Log)
	s.Log = append(s.Log, ReqLog{N: n, URL: full, Host: req.URL.Host, Scheme: req.URL.Scheme, Range: req.Header.Get("Range"), At: time.Since(s.start)})
	fault := s.faults[n]
	holdFor := ""
	for _, f := range s.urlFaults {
		if strings.Contains(full, f.substr) {
			if f.seen == f.nth && fault == "" {
				fault = f.kind
				f.hit = true
				holdFor = f.after
			}
			f.seen++
		}
	}
	s.mu.Unlock()
	if holdFor != "" {
		deadline := time.Now().Add(2 * time.Second)
		for time.Now().Before(deadline) && req.Context().Err() == nil {
			seen := false
			s.mu.Lock()
			for _, l := range s.Log {
				if strings.Contains(l.URL, holdFor) {
					seen = true
				}
			}
			s.mu.Unlock()
			if seen {
				time.Sleep(50 * time.Millisecond)
				break
			}
			time.Sleep(5 * time.Millisecond)
		}
	}
	if s.OnRequest != nil {
		s.OnRequest(n, full)
	}
	if s.Delay > 0 {
		select {
		case <-time.After(s.Delay):
		case <-req.Context().Done():
			return nil, req.Context().Err()
		}
	}
	if err := req.Context().Err(); err != nil {
		return nil, err
	}
	mk := func(status int, body []byte) *http.Response {
		return &http.Response{StatusCode: status, Status: strconv.Itoa(status), Header: http.Header{}, Body: io.NopCloser(bytes.NewReader(body)), ContentLength: int64(len(body)), Request: req, Proto: "HTTP/1.1", ProtoMajor: 1, ProtoMinor: 1}
	}
	switch fault {
	case "status404":
		return mk(404, []byte("not found")), nil
	case "status500":
		return mk(500, []byte("error")), nil
	case "neterr":
		if s.TransportErr != nil {
			return nil, s.TransportErr
		}
		return nil, fmt.Errorf("injected transport error")
	}
	var body []byte
	status := 200
	s.mu.Lock()
	if snaps, ok := s.playlists[path]; ok {
		k := s.plCount[path]
		s.plCount[path]++
		if k >= len(snaps) {
			k = len(snaps) - 1
		}
		body = []byte(snaps[k])
		s.mu.Unlock()
	} else if f, ok := s.files[path]; ok {
		s.mu.Unlock()
		body = f
		if r := req.Header.Get("Range"); r != "" {
			var a, b uint64
			base := s.bases[path]
			if _, err := fmt.Sscanf(r, "bytes=%d-%d", &a, &b); err == nil && a >= base && a <= b && b-base < uint64(len(f)) {
				body = f[a-base : b-base+1]
				status = 206
			} else {
				return mk(416, nil), nil
			}
		}
	} else {
		s.mu.Unlock()
		return mk(404, []byte("no such resource")), nil
	}
	switch fault {
	case "stall":
		half := body[:len(body)/2]
		return &http.Response{StatusCode: status, Header: http.Header{}, Body: &stallBody{ctx: req.Context(), data: bytes.NewReader(half)}, ContentLength: -1, Request: req}, nil
	case "truncate":
		return mk(status, body[:len(body)/2]), nil
	}
	return mk(status, body), nil
}
