package props

import (
	"errors"
	"fmt"
	"strings"
	"testing"
	"time"

	gohlslib "github.com/bluenviron/gohlslib/v2"
	"pgregory.net/rapid"

	"verifharness/cli"
	"verifharness/core"
)

// C20 end to end: with a server that answers instantly the downloader must not run ahead of
// the processor by more than two waiting segments plus the one being processed.

type c20e2eScenario struct {
	Stream  cli.StreamDef `json:"stream"`
	DelayMS int           `json:"delay_ms"`
}

func drawC20E2E(t *rapid.T) c20e2eScenario {
	var sd cli.StreamDef
	sd.Container = rapid.SampledFrom([]string{"fmp4", "mpegts"}).Draw(t, "container")
	sd.VOD = rapid.Bool().Draw(t, "vod")
	nSeg := rapid.IntRange(6, 10).Draw(t, "nseg")
	video := rapid.Bool().Draw(t, "video")
	var td cli.TrackDef
	if sd.Container == "mpegts" {
		td = cli.TrackDef{Codec: "aac", TimeScale: 90000, SampleDur: 1800}
		if video {
			td.Codec = "h264"
		}
	} else {
		td = cli.TrackDef{Codec: "aac", TimeScale: 48000, SampleDur: 960}
		if video {
			td = cli.TrackDef{Codec: "h264", TimeScale: 90000, SampleDur: 1800}
		}
	}
	sd.Lead.Tracks = []cli.TrackDef{td}
	per := rapid.IntRange(2, 4).Draw(t, "samplesPerSeg") // 20 ms each
	for i := 0; i < nSeg; i++ {
		sd.Lead.Segs = append(sd.Lead.Segs, cli.SegShape{Frags: [][]int{{per}}, Date: true})
	}
	return c20e2eScenario{Stream: sd, DelayMS: rapid.SampledFrom([]int{0, 0, 0, 1, 5}).Draw(t, "delay")}
}

func execC20E2E(sc c20e2eScenario) core.Outcome {
	var o core.Outcome
	b, err := cli.Build(sc.Stream)
	if err != nil {
		o.Skip = true
		return o
	}
	srv := serveStatic(b)
	srv.Delay = time.Duration(sc.DelayMS) * time.Millisecond
	r := cli.RunClient(cli.RunOpts{URI: "http://stream.test/lead.m3u8", Server: srv, CloseAtRequest: -1, MaxWait: 30 * time.Second})
	if !r.WaitReturned || !errors.Is(r.WaitErr, gohlslib.ErrClientEOS) {
		return fail(o, "client did not reach EOS: %v", r.WaitErr)
	}
	first := 0
	if !sc.Stream.VOD {
		first = len(b.Lead.SegURIs) - 3
	}
	// units per downloaded segment
	perSeg := map[int]int{}
	for _, u := range b.Lead.Units[0] {
		if u.Seg >= first {
			perSeg[u.Seg]++
		}
	}
	units := r.Units[0]
	k := 0
	for _, q := range r.Requests {
		if !strings.Contains(q.URL, "_seg") {
			continue
		}
		// segments fully delivered before this request was made
		deliveredUnits := 0
		for _, u := range units {
			if u.At < q.At {
				deliveredUnits++
			}
		}
		full, acc := 0, 0
		for s := first; s < len(b.Lead.SegURIs); s++ {
			acc += perSeg[s]
			if deliveredUnits >= acc {
				full++
			}
		}
		if full < k-3 {
			return fail(o, "request of segment #%d (%s) was made when only %d earlier segments were fully delivered: more than two downloaded segments waiting behind the one in process; requests: %v", k, q.URL, full, reqURLs(r.Requests))
		}
		if k-full >= 2 {
			o.NonTrivial = true // the downloader was actually ahead of the processor
		}
		k++
	}
	o.Labels = append(o.Labels, "e2e", fmt.Sprintf("e2e-delay=%d", sc.DelayMS))
	return o
}

var propC20E2E = core.Prop[c20e2eScenario]{
	ID: "C20", CrashLog: true,
	Sub: "e2e",
	Rule: "end to end: a Client against an instant (or 1-5 ms) scripted server with 6-10 segments of 40-80 ms media each (pacing makes the processor the slow side); " +
		"oracle: when the k-th segment is requested at least k-3 earlier segments are fully delivered (at most two waiting plus one in process); non-trivial = the downloader was ahead of the processor by two segments",
	Draw: drawC20E2E,
	Exec: execC20E2E,
}

func TestC20E2E(t *testing.T) { core.Run(t, propC20E2E) }
