package props

import (
	"os"
	"sort"
	"testing"

	"pgregory.net/rapid"

	"verifharness/core"
	"verifharness/mux"
)

type c07Scenario struct {
	Script mux.Script    `json:"script"`
	Plan   mux.ClosePlan `json:"plan"`
}

var profClose = mux.Profile{Name: "close", Variants: []int{mux.VariantLL, mux.VariantLL, mux.VariantFMP4, mux.VariantMPEGTS}, LeadUnits: [2]int{10, 140}, MaxAudio: 2, ParamRate: 2, AllowDisk: true, SegCountMax: 8}

// the same with a small SegmentMaxSize: some Write is rejected, Close follows that rejection
var profCloseSmall = func() mux.Profile {
	p := profClose
	p.Name = "close-small"
	p.SmallMax, p.OversizedRA = true, true
	return p
}()

func drawC07(t *rapid.T) c07Scenario {
	prof := profClose
	if rapid.IntRange(0, 3).Draw(t, "smallMax") == 0 {
		prof = profCloseSmall
	}
	sc := c07Scenario{Script: mux.DrawScript(t, prof)}
	n := len(sc.Script.Ops)
	sc.Plan.CloseAfterOp = rapid.OneOf(rapid.Just(-1), rapid.IntRange(0, 3), rapid.IntRange(0, n-1), rapid.IntRange(n/2, n-1)).Draw(t, "closeAfter")
	if sc.Plan.CloseAfterOp >= n {
		sc.Plan.CloseAfterOp = n - 1
	}
	np := rapid.IntRange(0, 7).Draw(t, "npending")
	for i := 0; i < np; i++ {
		sc.Plan.Pending = append(sc.Plan.Pending, mux.PendSpec{
			Kind:   rapid.SampledFrom([]string{"index", "plain", "reload-open", "reload-next", "reload-nextpart", "reload-nextpart", "hint", "hint"}).Draw(t, "pkind"),
			Stream: rapid.IntRange(0, 3).Draw(t, "pstream"),
		})
	}
	// an AV1 stream may carry, in one random access unit before the Close point, a sequence header
	// that does not parse: the rotation that needs the init file fails
	if rapid.IntRange(0, 3).Draw(t, "bogusAV1") == 0 {
		for k, op := range sc.Script.Ops {
			if k > 2 && k <= sc.Plan.CloseAfterOp && op.Kind == mux.KindRA && sc.Script.Config.Tracks[op.Track].Codec == "av1" && rapid.IntRange(0, 3).Draw(t, "bogusHere") == 0 {
				sc.Script.Ops[k].InBand = mux.AV1BogusHeader + 1
				break
			}
		}
	}
	sc.Plan.PauseClose = rapid.Bool().Draw(t, "pauseClose")
	sc.Plan.CloseTwice = rapid.IntRange(0, 3).Draw(t, "closeTwice") == 0
	sc.Plan.SlowHint = sc.Script.Config.Variant == mux.VariantLL && rapid.IntRange(0, 3).Draw(t, "slowHint") == 0
	if sc.Script.Config.Disk && rapid.IntRange(0, 3).Draw(t, "breakDir") == 0 {
		sc.Plan.BreakDir = rapid.IntRange(1, 60).Draw(t, "breakDirBefore")
	}
	return sc
}

func execC07(sc c07Scenario) core.Outcome {
	var o core.Outcome
	r := mux.RunC07(sc.Script, sc.Plan, os.Getenv("VERIF_TMP"))
	if r.Skip != "" {
		reason := r.Skip
		if len(reason) > 60 {
			reason = reason[:60]
		}
		o.Labels = append(o.Labels, "skip:"+reason)
		o.Skip = true
		return o
	}
	o.NonTrivial = r.PendingAtClose >= 1
	for k, n := range r.Kinds {
		if n > 0 {
			o.Labels = append(o.Labels, "pending:"+k)
		}
	}
	sort.Strings(o.Labels)
	switch {
	case sc.Plan.CloseAfterOp < 0:
		o.Labels = append(o.Labels, "close:before-data")
	case sc.Plan.CloseAfterOp < 4:
		o.Labels = append(o.Labels, "close:after-first-units")
	default:
		o.Labels = append(o.Labels, "close:mid-stream")
	}
	if r.ClosedTwice {
		o.Labels = append(o.Labels, "closed-twice")
	}
	if r.DirBroken {
		o.Labels = append(o.Labels, "directory-deleted")
	}
	if r.WriteFailed {
		o.Labels = append(o.Labels, "write-failed")
	}
	if r.SlowTransfer {
		o.Labels = append(o.Labels, "slow-client-mid-transfer")
	}
	if r.WriteRejected {
		o.Labels = append(o.Labels, "write-rejected-for-size")
	}
	if r.SecondClosePanicked {
		o.Labels = append(o.Labels, "second-close-panicked(outside the statement)")
	}
	if r.Paused {
		o.Labels = append(o.Labels, "close-paused-after-broadcast")
	}
	if sc.Script.Config.Disk {
		o.Labels = append(o.Labels, "disk")
	}
	for _, v := range r.Violations {
		if v.Prop == "C07" {
			o.Violation = v.Msg
			break
		}
		o.Labels = append(o.Labels, "other-property-violated:"+v.Prop)
	}
	return o
}

var propC07 = core.Prop[c07Scenario]{
	ID: "C07",
	Rule: "scripts of all variants x RAM/disk executed up to a drawn Close point (before data, after the first units, mid-segment / mid-part) with 0-7 pending requests drawn from {multivariant, media playlist before content, blocking reload for the open segment / next part / next segment, preload hint} on any stream; Close optionally parked at its yield point after the broadcast while every waiter runs until it finishes or blocks again; " +
		"oracle after Close returns: every pending request finished (goroutine state) with a non-200 status, fresh requests of every kind return (no lock left held), Directory empty; non-trivial = at least one request was blocked when Close was called",
	Draw: drawC07,
	Exec: execC07,
}

func TestC07(t *testing.T) { core.Run(t, propC07) }
