//go:build !verif

package props

import "testing"

var extraReplayers = map[string]func(t *testing.T, path string){}
