package props

import (
	"fmt"
	"os"
	"path/filepath"
	"strconv"
	"strings"
	"testing"

	"github.com/bluenviron/gohlslib/v2/pkg/playlist"
	"pgregory.net/rapid"

	"verifharness/core"
	"verifharness/m3u8x"
)

// ---- decoder half: Unmarshal is total and its result is structurally sound -----------------

type decScenario struct {
	Text  []byte `json:"text"`
	Entry string `json:"entry"` // media | multi | any
	Shape string `json:"shape"` // how the text was built (label only)
}

// checkDecodedMedia returns the first structural postcondition (C15 statement) that fails.
func checkDecodedMedia(m *playlist.Media) string {
	if len(m.Segments) == 0 {
		return "no segments"
	}
	if m.TargetDuration == 0 {
		return "zero target duration"
	}
	chkPart := func(where string, p *playlist.MediaPart) string {
		if p == nil {
			return where + ": nil part"
		}
		if p.Duration == 0 {
			return where + ": zero part duration"
		}
		if p.URI == "" {
			return where + ": part without URI"
		}
		return ""
	}
	for i, s := range m.Segments {
		if s == nil {
			return fmt.Sprintf("segment %d is nil", i)
		}
		if s.URI == "" {
			return fmt.Sprintf("segment %d has an empty URI", i)
		}
		if s.Duration == 0 {
			return fmt.Sprintf("segment %d has zero duration", i)
		}
		for j, p := range s.Parts {
			if v := chkPart(fmt.Sprintf("segment %d part %d", i, j), p); v != "" {
				return v
			}
		}
	}
	for j, p := range m.Parts {
		if v := chkPart(fmt.Sprintf("trailing part %d", j), p); v != "" {
			return v
		}
	}
	if m.PartInf != nil && m.PartInf.PartTarget == 0 {
		return "zero PART-TARGET"
	}
	if m.Map != nil && m.Map.URI == "" {
		return "map without URI"
	}
	if m.PreloadHint != nil && m.PreloadHint.URI == "" {
		return "preload hint without URI"
	}
	return ""
}

func checkDecodedMulti(m *playlist.Multivariant) string {
	if len(m.Variants) == 0 {
		return "no variants"
	}
	for i, v := range m.Variants {
		if v == nil {
			return fmt.Sprintf("variant %d is nil", i)
		}
		if v.URI == "" {
			return fmt.Sprintf("variant %d has an empty URI", i)
		}
	}
	for i, r := range m.Renditions {
		if r == nil {
			return fmt.Sprintf("rendition %d is nil", i)
		}
		switch r.Type {
		case playlist.MultivariantRenditionTypeAudio, playlist.MultivariantRenditionTypeVideo,
			playlist.MultivariantRenditionTypeSubtitles, playlist.MultivariantRenditionTypeClosedCaptions:
		default:
			return fmt.Sprintf("rendition %d has unknown type %q", i, r.Type)
		}
		if r.GroupID == "" {
			return fmt.Sprintf("rendition %d has no group id", i)
		}
	}
	return ""
}

// decodeAndCheck runs one entry point on text. accepted tells whether Unmarshal succeeded.
func decodeAndCheck(entry string, text []byte) (violation string, accepted bool) {
	defer func() {
		if r := recover(); r != nil {
			violation = fmt.Sprintf("panic in %s decoder: %v", entry, r)
		}
	}()
	var pl playlist.Playlist
	switch entry {
	case "media":
		m := &playlist.Media{}
		if err := m.Unmarshal(text); err != nil {
			return "", false
		}
		pl = m
	case "multi":
		m := &playlist.Multivariant{}
		if err := m.Unmarshal(text); err != nil {
			return "", false
		}
		pl = m
	default:
		p, err := playlist.Unmarshal(text)
		if err != nil {
			return "", false
		}
		if p == nil {
			return "playlist.Unmarshal returned nil, nil", true
		}
		pl = p
	}
	switch m := pl.(type) {
	case *playlist.Media:
		if v := checkDecodedMedia(m); v != "" {
			return "Unmarshal succeeded but the playlist has " + v, true
		}
	case *playlist.Multivariant:
		if v := checkDecodedMulti(m); v != "" {
			return "Unmarshal succeeded but the playlist has " + v, true
		}
	}
	out, err := pl.Marshal()
	if err != nil {
		return fmt.Sprintf("decoded playlist cannot be marshaled again: %v", err), true
	}
	if len(out) == 0 {
		return "decoded playlist marshals to nothing", true
	}
	return "", true
}

var tagSoup = []string{
	"#EXTM3U", "#EXT-X-VERSION:", "#EXT-X-INDEPENDENT-SEGMENTS", "#EXT-X-START:", "#EXT-X-ALLOW-CACHE:", "#EXT-X-TARGETDURATION:",
	"#EXT-X-SERVER-CONTROL:", "#EXT-X-PART-INF:", "#EXT-X-MEDIA-SEQUENCE:", "#EXT-X-DISCONTINUITY-SEQUENCE:", "#EXT-X-PLAYLIST-TYPE:",
	"#EXT-X-MAP:", "#EXT-X-KEY:", "#EXT-X-SKIP:", "#EXT-X-DISCONTINUITY", "#EXT-X-GAP", "#EXT-X-PROGRAM-DATE-TIME:", "#EXT-X-BITRATE:",
	"#EXTINF:", "#EXT-X-BYTERANGE:", "#EXT-X-PART:", "#EXT-X-PRELOAD-HINT:", "#EXT-X-ENDLIST", "#EXT-X-STREAM-INF:", "#EXT-X-MEDIA:",
}

var soupValues = []string{
	"", "0", "1", "3", "10", "11", "-1", "2147483647", "2147483648", "99999999999999999999", "0.0", "0.00000", "1.5", "1e-12", "1e400", "NaN", "Inf", "-Inf", "0x10",
	"YES", "NO", "VOD", "EVENT", "LIVE", "1.5,", "0,", "0.0000000001,", "NaN,title", "-4,", "5", "5@", "@5", "5@5", "18446744073709551616@1",
	"2014-08-25T00:00:00Z", "2014-08-25T00:00:00.123+0200", "2014-13-45T99:00:00Z",
	"DURATION=1.5,URI=\"p.mp4\"", "DURATION=0,URI=\"p.mp4\"", "DURATION=1.5", "URI=\"p.mp4\"", "DURATION=1.5,URI=\"\"", "DURATION=1e-20,URI=\"x\"", "DURATION=NaN,URI=\"x\"",
	"URI=\"init.mp4\"", "URI=\"\"", "URI=\"init.mp4\",BYTERANGE=\"10@0\"", "BYTERANGE=\"10@0\"", "URI=\"a\",BYTERANGE=x",
	"TYPE=PART,URI=\"h.mp4\"", "TYPE=PART", "TYPE=MAP,URI=\"h.mp4\"", "URI=\"h.mp4\"", "TYPE=PART,URI=\"\"", "TYPE=PART,URI=\"h\",BYTERANGE-START=-1",
	"PART-TARGET=0.5", "PART-TARGET=0", "PART-TARGET=", "FOO=1", "PART-TARGET=1e-30",
	"CAN-BLOCK-RELOAD=YES,PART-HOLD-BACK=1.0,CAN-SKIP-UNTIL=12", ",PART-HOLD-BACK=1", "CAN-SKIP-UNTIL=x",
	"SKIPPED-SEGMENTS=3", "SKIPPED-SEGMENTS=", "FOO=\"",
	"METHOD=NONE", "METHOD=AES-128,URI=\"k\"", "METHOD=AES-128", "METHOD=FOO", "METHOD=SAMPLE-AES,URI=\"k\",IV=0x12,KEYFORMAT=\"x\"",
	"TIME-OFFSET=1.5", "TIME-OFFSET=0", "TIME-OFFSET=-3",
	"BANDWIDTH=1000,CODECS=\"avc1.4d401f,mp4a.40.2\"", "BANDWIDTH=1000", "BANDWIDTH=x", "CODECS=\"a\"", "BANDWIDTH=1,AVERAGE-BANDWIDTH=-1", "BANDWIDTH=1,FRAME-RATE=x",
	"TYPE=AUDIO,GROUP-ID=\"a\",NAME=\"n\",URI=\"u\"", "TYPE=AUDIO", "TYPE=FOO,GROUP-ID=\"a\"", "GROUP-ID=\"a\"", "TYPE=AUDIO,GROUP-ID=\"\"", "TYPE=SUBTITLES,GROUP-ID=\"s\"",
	"TYPE=CLOSED-CAPTIONS,GROUP-ID=\"c\",INSTREAM-ID=\"CC1\"", "TYPE=CLOSED-CAPTIONS,GROUP-ID=\"c\"", "TYPE=VIDEO,GROUP-ID=\"v\",CHANNELS=\"2\"",
	"=", ",", "=,=", "A=\"", "A=\"x\"y", " A=1, B=2",
}

var soupURIs = []string{"seg.ts", "a/b.mp4?x=1", "http://h/x.m3u8", "", " ", "#", "\r", "seg.ts\r"}

func drawDecScenario(t *rapid.T) decScenario {
	var sc decScenario
	sc.Entry = rapid.SampledFrom([]string{"media", "multi", "any"}).Draw(t, "entry")
	shape := rapid.IntRange(0, 9).Draw(t, "shape")
	switch {
	case shape == 0:
		sc.Shape = "random-bytes"
		sc.Text = rapid.SliceOfN(rapid.Byte(), 0, 300).Draw(t, "bytes")
	case shape <= 5:
		sc.Shape = "tag-soup"
		var b strings.Builder
		if rapid.IntRange(0, 19).Draw(t, "hdr") != 0 {
			b.WriteString("#EXTM3U")
			b.WriteString(rapid.SampledFrom([]string{"\n", "\n", "\n", "\r\n", "", " \n"}).Draw(t, "hdrnl"))
		}
		n := rapid.IntRange(0, 14).Draw(t, "nlines")
		for i := 0; i < n; i++ {
			if rapid.IntRange(0, 4).Draw(t, "uri?") == 0 {
				b.WriteString(rapid.SampledFrom(soupURIs).Draw(t, "soupuri"))
			} else {
				tag := rapid.SampledFrom(tagSoup).Draw(t, "tag")
				b.WriteString(tag)
				if strings.HasSuffix(tag, ":") || rapid.IntRange(0, 9).Draw(t, "forceval") == 0 {
					if rapid.IntRange(0, 5).Draw(t, "rndval") == 0 {
						b.WriteString(rapid.StringMatching(`[A-Z-]{0,6}=?("[a-z,=]{0,5}"?|[0-9a-zA-Z.@-]{0,8})(,[A-Z]{1,4}=[0-9a-z"]{0,4})?`).Draw(t, "rv"))
					} else {
						b.WriteString(rapid.SampledFrom(soupValues).Draw(t, "val"))
					}
				}
			}
			b.WriteString(rapid.SampledFrom([]string{"\n", "\n", "\n", "\n", "\r\n", "", "\n\n"}).Draw(t, "nl"))
		}
		sc.Text = []byte(b.String())
	default:
		sc.Shape = "mutated-valid"
		var txt []byte
		if rapid.Bool().Draw(t, "multi") {
			txt, _ = drawMulti(t).Marshal()
		} else {
			txt, _ = drawMedia(t).Marshal()
		}
		nm := rapid.IntRange(1, 4).Draw(t, "nmut")
		for i := 0; i < nm && len(txt) > 0; i++ {
			pos := rapid.IntRange(0, len(txt)-1).Draw(t, "pos")
			switch rapid.IntRange(0, 6).Draw(t, "mut") {
			case 0: // delete a span
				end := pos + rapid.IntRange(1, 12).Draw(t, "span")
				if end > len(txt) {
					end = len(txt)
				}
				txt = append(append([]byte{}, txt[:pos]...), txt[end:]...)
			case 1: // replace a byte
				txt = append([]byte{}, txt...)
				txt[pos] = rapid.SampledFrom([]byte{'0', '"', ',', '=', '\n', '#', ':', '.', '-', 'X', 0, 0xff, '\r', ' '}).Draw(t, "byte")
			case 2: // insert
				ins := rapid.SampledFrom([]string{"\n", "\"", ",", "=", "0", "\n#EXTINF:0,\n", "\n#EXT-X-PART:DURATION=0,URI=\"\"\n", "\n#EXT-X-MAP:BYTERANGE=\"1\"\n", "9999999999", "\n#EXT-X-STREAM-INF:BANDWIDTH=1\n"}).Draw(t, "ins")
				txt = append(append(append([]byte{}, txt[:pos]...), ins...), txt[pos:]...)
			case 3: // truncate
				txt = txt[:pos]
			case 4: // duplicate a line
				ls := strings.SplitAfter(string(txt), "\n")
				k := rapid.IntRange(0, len(ls)-1).Draw(t, "line")
				ls = append(ls[:k+1], ls[k:]...)
				txt = []byte(strings.Join(ls, ""))
			case 5: // drop a line
				ls := strings.SplitAfter(string(txt), "\n")
				k := rapid.IntRange(0, len(ls)-1).Draw(t, "line")
				ls = append(append([]string{}, ls[:k]...), ls[k+1:]...)
				txt = []byte(strings.Join(ls, ""))
			case 6: // zero a number
				ls := strings.SplitAfter(string(txt), "\n")
				k := rapid.IntRange(0, len(ls)-1).Draw(t, "line")
				ls[k] = strings.Map(func(r rune) rune {
					if r >= '1' && r <= '9' {
						return '0'
					}
					return r
				}, ls[k])
				txt = []byte(strings.Join(ls, ""))
			}
		}
		sc.Text = txt
	}
	return sc
}

func execDec(sc decScenario) core.Outcome {
	var o core.Outcome
	v, accepted := decodeAndCheck(sc.Entry, sc.Text)
	o.NonTrivial = accepted
	o.Labels = []string{"entry:" + sc.Entry, "shape:" + sc.Shape}
	if accepted {
		o.Labels = append(o.Labels, "accepted", "accepted:"+sc.Shape)
	}
	if v != "" {
		o.Violation = fmt.Sprintf("%s\ninput: %q", v, sc.Text)
	}
	return o
}

var propC15Dec = core.Prop[decScenario]{
	ID:  "C15",
	Sub: "decoder",
	Rule: "decoder half: byte strings built as random bytes / tag soup from the tag and attribute dictionary with hostile values / byte-level mutations of Marshal output, " +
		"fed to Media.Unmarshal, Multivariant.Unmarshal and playlist.Unmarshal; oracle: no panic, and on success the structural postconditions of the statement hold and Marshal succeeds; " +
		"non-trivial = Unmarshal accepted the input",
	Draw: drawDecScenario,
	Exec: execDec,
}

func TestC15Decoder(t *testing.T) { core.Run(t, propC15Dec) }

// ---- grammar half: every Marshal output of a valid value parses under the strict grammar ----

// inF16 tells whether the value falls into open finding F16 (EXT-X-MAP BYTERANGE unquoted).
func inF16(sc plScenario) bool {
	return sc.Kind == "media" && sc.Media.Map != nil && sc.Media.Map.ByteRangeLength != nil
}

func execGrammar(sc plScenario) core.Outcome {
	var o core.Outcome
	o.Labels = []string{"grammar:" + sc.Kind}
	if sc.Kind == "media" {
		m := sc.Media
		keyed := false
		for _, s := range m.Segments {
			keyed = keyed || s.Key != nil
		}
		o.NonTrivial = m.ServerControl != nil || keyed
		if m.ServerControl != nil {
			o.Labels = append(o.Labels, "server-control")
		}
		if keyed {
			o.Labels = append(o.Labels, "key")
		}
	} else {
		o.NonTrivial = len(sc.Multi.Renditions) > 0
		if o.NonTrivial {
			o.Labels = append(o.Labels, "media-tag")
		}
	}
	if core.Open("F16") && inF16(sc) {
		// excluded by construction: drop the byte range, keep the rest of the value
		cp := *sc.Media
		mp := *cp.Map
		mp.ByteRangeLength, mp.ByteRangeStart = nil, nil
		cp.Map = &mp
		sc.Media = &cp
		o.Excluded = 1
	}
	if sc.Kind == "media" && sc.Media.PartInf == nil {
		// cross-field requirement of a valid value (RFC 8216bis 4.4.3.7): parts need EXT-X-PART-INF
		hasParts := len(sc.Media.Parts) > 0
		for _, s := range sc.Media.Segments {
			hasParts = hasParts || len(s.Parts) > 0
		}
		if hasParts {
			cp := *sc.Media
			cp.PartInf = &playlist.MediaPartInf{PartTarget: 1e9}
			sc.Media = &cp
		}
	}
	txt, err := sc.value().Marshal()
	if err != nil {
		return fail(o, "Marshal failed on a valid value: %v", err)
	}
	if errs := m3u8x.Strict(string(txt)); len(errs) > 0 {
		return fail(o, "Marshal output is not grammatical M3U8: %s\n%s", strings.Join(errs, "; "), txt)
	}
	return o
}

var propC15Grammar = core.Prop[plScenario]{
	ID:  "C15",
	Sub: "grammar",
	Rule: "grammar half: the playlist values of C14; oracle: Marshal output accepted by the independent strict RFC 8216/8216bis grammar (harness/m3u8x.Strict); " +
		"non-trivial = value with a SERVER-CONTROL, KEY or MEDIA tag",
	Draw: drawPlaylistScenario,
	Exec: execGrammar,
}

func TestC15Grammar(t *testing.T) { core.Run(t, propC15Grammar) }

// TestKnownF16 passes (and prints STILL-REPRODUCES) while EXT-X-MAP BYTERANGE is emitted unquoted.
func TestKnownF16(t *testing.T) {
	l, s := uint64(721), uint64(0)
	m := playlist.Media{Version: 7, TargetDuration: 6, Map: &playlist.MediaMap{URI: "main.mp4", ByteRangeLength: &l, ByteRangeStart: &s},
		Segments: []*playlist.MediaSegment{{Duration: 6e9, URI: "main.mp4"}}}
	txt, err := m.Marshal()
	if err != nil {
		t.Fatal(err)
	}
	errs := m3u8x.Strict(string(txt))
	if len(errs) == 1 && strings.Contains(errs[0], "EXT-X-MAP: attribute BYTERANGE") {
		fmt.Println("STILL-REPRODUCES F16:", errs[0])
		return
	}
	fmt.Println("F16 does not reproduce:", errs)
}

// ---- native fuzz targets (thorough tier) -----------------------------------------------------

func addFuzzSeeds(f *testing.F) {
	for _, s := range []string{
		"#EXTM3U\n#EXT-X-VERSION:3\n#EXT-X-TARGETDURATION:2\n#EXTINF:2.00000,\nseg.ts\n",
		"#EXTM3U\n#EXT-X-STREAM-INF:BANDWIDTH=1,CODECS=\"a\"\nx.m3u8\n",
		"#EXTM3U\n#EXT-X-VERSION:9\n#EXT-X-TARGETDURATION:2\n#EXT-X-SERVER-CONTROL:CAN-BLOCK-RELOAD=YES,PART-HOLD-BACK=1.00000,CAN-SKIP-UNTIL=12.00000\n#EXT-X-PART-INF:PART-TARGET=0.50000\n#EXT-X-MEDIA-SEQUENCE:3\n#EXT-X-MAP:URI=\"init.mp4\"\n#EXT-X-SKIP:SKIPPED-SEGMENTS=1\n#EXT-X-KEY:METHOD=AES-128,URI=\"k\",IV=0x01\n#EXT-X-PROGRAM-DATE-TIME:2020-01-01T00:00:00.5Z\n#EXT-X-PART:DURATION=0.50000,URI=\"p1.mp4\",INDEPENDENT=YES\n#EXTINF:1.00000,t\n#EXT-X-BYTERANGE:5@1\ns.mp4\n#EXT-X-PART:DURATION=0.5,URI=\"p2.mp4\",BYTERANGE=\"1@2\",GAP=YES\n#EXT-X-PRELOAD-HINT:TYPE=PART,URI=\"p3.mp4\",BYTERANGE-START=1,BYTERANGE-LENGTH=2\n#EXT-X-ENDLIST\n",
		"#EXTM3U\n#EXT-X-VERSION:9\n#EXT-X-INDEPENDENT-SEGMENTS\n#EXT-X-START:TIME-OFFSET=1.00000\n\n#EXT-X-MEDIA:TYPE=AUDIO,GROUP-ID=\"a\",LANGUAGE=\"en\",NAME=\"n\",AUTOSELECT=YES,DEFAULT=YES,CHANNELS=\"2\",URI=\"a.m3u8\"\n#EXT-X-MEDIA:TYPE=CLOSED-CAPTIONS,GROUP-ID=\"c\",NAME=\"c\",INSTREAM-ID=\"CC1\"\n\n#EXT-X-STREAM-INF:BANDWIDTH=1,AVERAGE-BANDWIDTH=1,CODECS=\"a,b\",RESOLUTION=1x1,FRAME-RATE=30.000,AUDIO=\"a\",CLOSED-CAPTIONS=\"c\"\nv.m3u8\n",
	} {
		f.Add([]byte(s))
	}
	// the repository's own corpora
	for _, dir := range []string{"FuzzMediaUnmarshal", "FuzzMultivariantUnmarshal", "FuzzPlaylistUnmarshal"} {
		files, _ := filepath.Glob(filepath.Join("/repo/pkg/playlist/testdata/fuzz", dir, "*"))
		for _, fn := range files {
			b, err := os.ReadFile(fn)
			if err != nil {
				continue
			}
			// go fuzz corpus file: line 2 is  string("...") or []byte("...")
			ls := strings.SplitN(string(b), "\n", 3)
			if len(ls) < 2 {
				continue
			}
			l := strings.TrimSpace(ls[1])
			for _, pre := range []string{"string(", "[]byte("} {
				if strings.HasPrefix(l, pre) && strings.HasSuffix(l, ")") {
					if v, err := strconv.Unquote(l[len(pre) : len(l)-1]); err == nil {
						f.Add([]byte(v))
					}
				}
			}
		}
	}
}

func fuzzEntry(f *testing.F, entry string) {
	addFuzzSeeds(f)
	f.Fuzz(func(t *testing.T, b []byte) {
		if v, _ := decodeAndCheck(entry, b); v != "" {
			t.Fatalf("VIOLATION C15: %s", v)
		}
	})
}

func FuzzC15Media(f *testing.F) { fuzzEntry(f, "media") }
func FuzzC15Multi(f *testing.F) { fuzzEntry(f, "multi") }
func FuzzC15Any(f *testing.F)   { fuzzEntry(f, "any") }
