package props

import (
	"fmt"
	"math"
	"reflect"
	"strings"
	"time"

	"github.com/bluenviron/gohlslib/v2/pkg/playlist"
	"pgregory.net/rapid"
)

// Generators of playlist values inside the documented field requirements (DESIGN §4 C14) and
// a tolerance-aware structural comparison.

func optPtr[T any](t *rapid.T, label string, g *rapid.Generator[T]) *T {
	if rapid.Bool().Draw(t, label+"?") {
		v := g.Draw(t, label)
		return &v
	}
	return nil
}

// characters allowed inside a quoted-string: anything but '"', CR, LF
var quotedGen = rapid.OneOf(
	rapid.StringMatching(`[a-zA-Z0-9_./:?&=%+ ,;@!~-]{1,24}`),
	rapid.StringMatching(`[^"\r\n]{1,12}`),
)

// a URI line: non-empty, no CR/LF, does not start with '#', no surrounding whitespace
var uriLineGen = rapid.OneOf(
	rapid.StringMatching(`[a-zA-Z0-9_./:?&=%+~-]{1,40}`),
	rapid.StringMatching(`(https?://[a-z0-9.]{1,12}(:[0-9]{2,4})?/)?([a-zA-Z0-9_%-]{1,8}/){0,3}[a-zA-Z0-9_-]{1,12}\.(ts|mp4|m4s|m3u8)(\?[a-z]{1,5}=[a-zA-Z0-9%]{0,8}(&[a-z]{1,4}=[0-9]{1,4})?)?`),
	rapid.StringMatching(`[^\s#"][^\r\n"]{0,18}[^\s"]`).Filter(func(s string) bool { return strings.TrimSpace(s) == s }),
)

var quotedURIGen = rapid.OneOf(
	rapid.StringMatching(`[a-zA-Z0-9_./:?&=%+~-]{1,40}`),
	rapid.StringMatching(`[^\r\n"]{1,20}`),
)

var titleGen = rapid.OneOf(
	rapid.Just(""), rapid.Just(""),
	rapid.StringMatching(`[a-zA-Z0-9][a-zA-Z0-9 ,:=#"-]{0,14}[a-zA-Z0-9]`),
	rapid.StringMatching(`[^\s][^\r\n]{0,10}[^\s]`).Filter(func(s string) bool { return strings.TrimSpace(s) == s }),
)

// durations >= 10us (the text form has five decimals)
var durGen = rapid.Map(rapid.OneOf(
	rapid.Int64Range(10_000, 20_000_000_000),
	rapid.Int64Range(10_000, 1_000_000),
	rapid.Map(rapid.Int64Range(1, 2_000_000), func(v int64) int64 { return v * 10_000 }), // exact multiples of 10us
	rapid.Map(rapid.Int64Range(1, 100_000), func(v int64) int64 { return v*10_000 + 5_000 }),
	rapid.Int64Range(10_000, 1<<50),
), func(v int64) time.Duration { return time.Duration(v) })

var int31Gen = rapid.OneOf(
	rapid.IntRange(0, 1<<31-1),
	rapid.IntRange(0, 20),
	rapid.SampledFrom([]int{0, 1, 1<<31 - 1, 1<<31 - 2, 65535, 65536}),
)

var uint64Gen = rapid.OneOf(
	rapid.Uint64(),
	rapid.Uint64Range(0, 5000),
	rapid.SampledFrom([]uint64{0, 1, math.MaxUint64, math.MaxUint32, 1 << 32}),
)

func timeGen() *rapid.Generator[time.Time] {
	return rapid.Custom(func(t *rapid.T) time.Time {
		year := rapid.OneOf(rapid.IntRange(1, 9999), rapid.IntRange(1970, 2100)).Draw(t, "year")
		month := rapid.IntRange(1, 12).Draw(t, "month")
		day := rapid.IntRange(1, 28).Draw(t, "day")
		h := rapid.IntRange(0, 23).Draw(t, "h")
		mi := rapid.IntRange(0, 59).Draw(t, "mi")
		s := rapid.IntRange(0, 59).Draw(t, "s")
		ns := rapid.OneOf(
			rapid.IntRange(0, 999_999_999),
			rapid.Map(rapid.IntRange(0, 999), func(v int) int { return v * 1_000_000 }),
			rapid.Just(0),
		).Draw(t, "ns")
		var loc *time.Location
		switch rapid.IntRange(0, 2).Draw(t, "zone") {
		case 0:
			loc = time.UTC
		default:
			offMin := rapid.IntRange(-14*60, 14*60).Draw(t, "offmin")
			loc = time.FixedZone("", offMin*60)
		}
		return time.Date(year, time.Month(month), day, h, mi, s, ns, loc)
	})
}

func byteRangeGen(t *rapid.T, label string) (*uint64, *uint64) {
	if !rapid.Bool().Draw(t, label+"?") {
		return nil, nil
	}
	l := uint64Gen.Draw(t, label+"len")
	return &l, optPtr(t, label+"start", uint64Gen)
}

func keyGen(t *rapid.T) *playlist.MediaKey {
	method := rapid.SampledFrom([]playlist.MediaKeyMethod{playlist.MediaKeyMethodNone, playlist.MediaKeyMethodAES128, playlist.MediaKeyMethodSampleAES}).Draw(t, "method")
	k := &playlist.MediaKey{Method: method}
	if method == playlist.MediaKeyMethodNone {
		return k // METHOD=NONE: no other attribute (RFC 8216 4.3.2.4)
	}
	k.URI = quotedURIGen.Draw(t, "keyuri")
	if rapid.Bool().Draw(t, "iv?") {
		k.IV = rapid.StringMatching(`0[xX][0-9A-Fa-f]{1,32}`).Draw(t, "iv")
	}
	if rapid.Bool().Draw(t, "kf?") {
		k.KeyFormat = quotedGen.Draw(t, "kf")
	}
	if rapid.Bool().Draw(t, "kfv?") {
		k.KeyFormatVersions = rapid.StringMatching(`[0-9](/[0-9]){0,3}`).Draw(t, "kfv")
	}
	return k
}

func partGen(t *rapid.T) *playlist.MediaPart {
	p := &playlist.MediaPart{
		Duration:    durGen.Draw(t, "pdur"),
		URI:         quotedURIGen.Draw(t, "puri"),
		Independent: rapid.Bool().Draw(t, "indep"),
		Gap:         rapid.Bool().Draw(t, "pgap"),
	}
	p.ByteRangeLength, p.ByteRangeStart = byteRangeGen(t, "pbr")
	return p
}

func startGen(t *rapid.T) *playlist.MultivariantStart {
	d := durGen.Draw(t, "startoff")
	if d > time.Duration(1<<45) {
		d = d % time.Duration(1<<45)
		if d < 10_000 {
			d = 10_000
		}
	}
	if rapid.Bool().Draw(t, "startneg") {
		d = -d
	}
	return &playlist.MultivariantStart{TimeOffset: d}
}

func drawMedia(t *rapid.T) *playlist.Media {
	m := &playlist.Media{
		Version:             rapid.IntRange(0, 10).Draw(t, "version"),
		IndependentSegments: rapid.Bool().Draw(t, "indepsegs"),
		TargetDuration:      rapid.OneOf(rapid.IntRange(1, 1<<31-1), rapid.IntRange(1, 12)).Draw(t, "target"),
		MediaSequence:       int31Gen.Draw(t, "mseq"),
		Endlist:             rapid.Bool().Draw(t, "endlist"),
	}
	if rapid.Bool().Draw(t, "start?") {
		m.Start = startGen(t)
	}
	m.AllowCache = optPtr(t, "allowcache", rapid.Bool())
	if rapid.Bool().Draw(t, "sc?") {
		sc := &playlist.MediaServerControl{}
		// at least one attribute: an EXT-X-SERVER-CONTROL tag with an empty attribute list is not
		// a playlist the documentation describes
		for {
			sc.CanBlockReload = rapid.Bool().Draw(t, "cbr")
			sc.PartHoldBack = optPtr(t, "phb", durGen)
			sc.CanSkipUntil = optPtr(t, "csu", durGen)
			if sc.CanBlockReload || sc.PartHoldBack != nil || sc.CanSkipUntil != nil {
				break
			}
			sc.CanBlockReload = true
			break
		}
		m.ServerControl = sc
	}
	if rapid.Bool().Draw(t, "partinf?") {
		m.PartInf = &playlist.MediaPartInf{PartTarget: durGen.Draw(t, "parttarget")}
	}
	m.DiscontinuitySequence = optPtr(t, "dseq", int31Gen)
	if rapid.Bool().Draw(t, "pltype?") {
		v := playlist.MediaPlaylistType(rapid.SampledFrom([]string{"EVENT", "VOD"}).Draw(t, "pltype"))
		m.PlaylistType = &v
	}
	if rapid.Bool().Draw(t, "map?") {
		mp := &playlist.MediaMap{URI: quotedURIGen.Draw(t, "mapuri")}
		mp.ByteRangeLength, mp.ByteRangeStart = byteRangeGen(t, "mapbr")
		m.Map = mp
	}
	if rapid.Bool().Draw(t, "skip?") {
		m.Skip = &playlist.MediaSkip{SkippedSegments: int31Gen.Draw(t, "skipped")}
	}
	nseg := rapid.IntRange(1, 5).Draw(t, "nseg")
	var curKey *playlist.MediaKey
	for i := 0; i < nseg; i++ {
		s := &playlist.MediaSegment{
			Duration:      durGen.Draw(t, "dur"),
			Title:         titleGen.Draw(t, "title"),
			URI:           uriLineGen.Draw(t, "uri"),
			Discontinuity: rapid.Bool().Draw(t, "disc"),
			Gap:           rapid.Bool().Draw(t, "gap"),
		}
		s.DateTime = optPtr(t, "datetime", timeGen())
		s.Bitrate = optPtr(t, "bitrate", int31Gen)
		s.ByteRangeLength, s.ByteRangeStart = byteRangeGen(t, "br")
		// keys: once a key tag was written it applies to every later segment
		switch rapid.IntRange(0, 4).Draw(t, "keychange") {
		case 0:
			curKey = keyGen(t)
		case 1:
			if curKey != nil {
				cp := *curKey
				curKey = &cp // equal content, different pointer
			}
		case 2:
			// a key that differs from the previous one in exactly one attribute
			if curKey != nil && curKey.Method != playlist.MediaKeyMethodNone {
				cp := *curKey
				switch rapid.IntRange(0, 4).Draw(t, "keyfield") {
				case 0:
					if cp.IV == "" {
						cp.IV = rapid.StringMatching(`0x[0-9A-F]{2,32}`).Draw(t, "iv2")
					} else if rapid.Bool().Draw(t, "dropiv") {
						cp.IV = ""
					} else {
						cp.IV += "0"
					}
				case 1:
					cp.URI += "2"
				case 2:
					if cp.KeyFormat == "" {
						cp.KeyFormat = "identity"
					} else {
						cp.KeyFormat = ""
					}
				case 3:
					if cp.KeyFormatVersions == "" {
						cp.KeyFormatVersions = "1/2"
					} else {
						cp.KeyFormatVersions = ""
					}
				case 4:
					if cp.Method == playlist.MediaKeyMethodAES128 {
						cp.Method = playlist.MediaKeyMethodSampleAES
					} else {
						cp.Method = playlist.MediaKeyMethodAES128
					}
				}
				curKey = &cp
			}
		}
		s.Key = curKey
		np := rapid.IntRange(0, 2).Draw(t, "nparts")
		for j := 0; j < np; j++ {
			s.Parts = append(s.Parts, partGen(t))
		}
		m.Segments = append(m.Segments, s)
	}
	ntp := rapid.IntRange(0, 2).Draw(t, "ntrail")
	for j := 0; j < ntp; j++ {
		m.Parts = append(m.Parts, partGen(t))
	}
	if rapid.Bool().Draw(t, "hint?") {
		h := &playlist.MediaPreloadHint{URI: quotedURIGen.Draw(t, "hinturi")}
		if rapid.Bool().Draw(t, "hintstart?") {
			h.ByteRangeStart = uint64Gen.Draw(t, "hintstart")
		}
		h.ByteRangeLength = optPtr(t, "hintlen", uint64Gen)
		m.PreloadHint = h
	}
	return m
}

func drawMulti(t *rapid.T) *playlist.Multivariant {
	m := &playlist.Multivariant{
		Version:             rapid.IntRange(0, 10).Draw(t, "version"),
		IndependentSegments: rapid.Bool().Draw(t, "indepsegs"),
	}
	if rapid.Bool().Draw(t, "start?") {
		m.Start = startGen(t)
	}
	codecGen := rapid.OneOf(
		rapid.SampledFrom([]string{"avc1.640028", "mp4a.40.2", "hvc1.1.6.L120.90", "av01.0.04M.08", "vp09.00.10.08", "opus", "ec-3"}),
		rapid.StringMatching(`[a-z0-9.]{1,12}`),
	)
	optStr := func(label string) string {
		if rapid.Bool().Draw(t, label+"?") {
			return quotedGen.Draw(t, label)
		}
		return ""
	}
	nv := rapid.IntRange(1, 3).Draw(t, "nvariants")
	for i := 0; i < nv; i++ {
		v := &playlist.MultivariantVariant{
			Bandwidth: int31Gen.Draw(t, "bw"),
			Codecs:    rapid.SliceOfN(codecGen, 1, 3).Draw(t, "codecs"),
			URI:       uriLineGen.Draw(t, "vuri"),
		}
		v.AverageBandwidth = optPtr(t, "avgbw", int31Gen)
		if rapid.Bool().Draw(t, "res?") {
			v.Resolution = fmt.Sprintf("%dx%d", rapid.IntRange(1, 8192).Draw(t, "w"), rapid.IntRange(1, 8192).Draw(t, "h"))
		}
		if rapid.Bool().Draw(t, "fps?") {
			f := float64(rapid.IntRange(0, 300_000).Draw(t, "fpsmilli")) / 1000
			v.FrameRate = &f
		}
		v.Video = optStr("video")
		v.Audio = optStr("audio")
		v.Subtitles = optStr("subs")
		v.ClosedCaptions = optStr("cc")
		m.Variants = append(m.Variants, v)
	}
	nr := rapid.IntRange(0, 4).Draw(t, "nrend")
	for i := 0; i < nr; i++ {
		typ := rapid.SampledFrom([]playlist.MultivariantRenditionType{
			playlist.MultivariantRenditionTypeAudio, playlist.MultivariantRenditionTypeVideo,
			playlist.MultivariantRenditionTypeSubtitles, playlist.MultivariantRenditionTypeClosedCaptions,
		}).Draw(t, "rtype")
		r := &playlist.MultivariantRendition{
			Type:       typ,
			GroupID:    quotedGen.Draw(t, "group"),
			Name:       quotedGen.Draw(t, "name"),
			Language:   optStr("lang"),
			Autoselect: rapid.Bool().Draw(t, "autoselect"),
			Default:    rapid.Bool().Draw(t, "default"),
			Forced:     rapid.Bool().Draw(t, "forced"),
		}
		switch typ {
		case playlist.MultivariantRenditionTypeClosedCaptions:
			id := rapid.StringMatching(`(CC[1-4]|SERVICE[1-9][0-9]?)`).Draw(t, "instream")
			r.InStreamID = &id
		case playlist.MultivariantRenditionTypeSubtitles:
			u := quotedURIGen.Draw(t, "ruri")
			r.URI = &u
		default:
			r.URI = optPtr(t, "ruri", quotedURIGen)
		}
		if typ == playlist.MultivariantRenditionTypeAudio {
			r.Channels = optPtr(t, "channels", rapid.StringMatching(`[0-9]{1,2}(/[A-Z0-9-]{1,6})?`))
		}
		m.Renditions = append(m.Renditions, r)
	}
	return m
}

// ---- tolerance-aware comparison --------------------------------------------------------------

var (
	durType  = reflect.TypeOf(time.Duration(0))
	timeType = reflect.TypeOf(time.Time{})
)

// diffValues walks a and b in parallel. Durations may differ by 10us (the resolution of the
// text form), date-times by less than 1ms (compared as instants), float64 by 0.0005 (three
// decimals). nil and empty slices are the same. Returns "" when equal.
func diffValues(path string, a, b reflect.Value) string {
	if a.Type() != b.Type() {
		return fmt.Sprintf("%s: type %v vs %v", path, a.Type(), b.Type())
	}
	switch a.Type() {
	case durType:
		d := a.Int() - b.Int()
		if d < -10_000 || d > 10_000 {
			return fmt.Sprintf("%s: duration %v vs %v", path, time.Duration(a.Int()), time.Duration(b.Int()))
		}
		return ""
	case timeType:
		ta, tb := a.Interface().(time.Time), b.Interface().(time.Time)
		d := ta.Sub(tb)
		if d <= -time.Millisecond || d >= time.Millisecond {
			return fmt.Sprintf("%s: time %v vs %v", path, ta, tb)
		}
		return ""
	}
	switch a.Kind() {
	case reflect.Ptr, reflect.Interface:
		if a.IsNil() || b.IsNil() {
			if a.IsNil() != b.IsNil() {
				return fmt.Sprintf("%s: nil=%v vs nil=%v", path, a.IsNil(), b.IsNil())
			}
			return ""
		}
		return diffValues(path, a.Elem(), b.Elem())
	case reflect.Struct:
		for i := 0; i < a.NumField(); i++ {
			if d := diffValues(path+"."+a.Type().Field(i).Name, a.Field(i), b.Field(i)); d != "" {
				return d
			}
		}
		return ""
	case reflect.Slice:
		if a.Len() != b.Len() {
			return fmt.Sprintf("%s: length %d vs %d", path, a.Len(), b.Len())
		}
		for i := 0; i < a.Len(); i++ {
			if d := diffValues(fmt.Sprintf("%s[%d]", path, i), a.Index(i), b.Index(i)); d != "" {
				return d
			}
		}
		return ""
	case reflect.Float64:
		if math.Abs(a.Float()-b.Float()) > 0.0005+1e-9 {
			return fmt.Sprintf("%s: %v vs %v", path, a.Float(), b.Float())
		}
		return ""
	case reflect.String:
		if a.String() != b.String() {
			return fmt.Sprintf("%s: %q vs %q", path, a.String(), b.String())
		}
		return ""
	case reflect.Bool:
		if a.Bool() != b.Bool() {
			return fmt.Sprintf("%s: %v vs %v", path, a.Bool(), b.Bool())
		}
		return ""
	case reflect.Int, reflect.Int64, reflect.Int32:
		if a.Int() != b.Int() {
			return fmt.Sprintf("%s: %d vs %d", path, a.Int(), b.Int())
		}
		return ""
	case reflect.Uint64, reflect.Uint32, reflect.Uint:
		if a.Uint() != b.Uint() {
			return fmt.Sprintf("%s: %d vs %d", path, a.Uint(), b.Uint())
		}
		return ""
	}
	return fmt.Sprintf("%s: unsupported kind %v", path, a.Kind())
}

func diffPlaylists(a, b any) string {
	return diffValues("", reflect.ValueOf(a), reflect.ValueOf(b))
}
