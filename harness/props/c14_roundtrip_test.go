package props

import (
	"fmt"
	"strings"
	"testing"

	"github.com/bluenviron/gohlslib/v2/pkg/playlist"
	"pgregory.net/rapid"

	"verifharness/core"
	"verifharness/m3u8x"
)

type plScenario struct {
	Kind    string                 `json:"kind"` // media | multi
	Media   *playlist.Media        `json:"media,omitempty"`
	Multi   *playlist.Multivariant `json:"multi,omitempty"`
	Choices []int                  `json:"choices"` // drives the metamorphic text transforms
}

func drawPlaylistScenario(t *rapid.T) plScenario {
	var sc plScenario
	if rapid.IntRange(0, 2).Draw(t, "kind") == 0 {
		sc.Kind = "multi"
		sc.Multi = drawMulti(t)
	} else {
		sc.Kind = "media"
		sc.Media = drawMedia(t)
	}
	sc.Choices = rapid.SliceOfN(rapid.IntRange(0, 1000), 8, 8).Draw(t, "choices")
	return sc
}

func (sc plScenario) value() playlist.Playlist {
	if sc.Kind == "multi" {
		return sc.Multi
	}
	return sc.Media
}

func (sc plScenario) fresh() playlist.Playlist {
	if sc.Kind == "multi" {
		return &playlist.Multivariant{}
	}
	return &playlist.Media{}
}

// excluded by open known findings (class excluded by construction, counted)
func (sc plScenario) inOpenFinding() bool {
	return false
}

type chooser struct {
	c []int
	i int
}

func (c *chooser) next(n int) int {
	if n <= 0 {
		return 0
	}
	if len(c.c) == 0 {
		return 0
	}
	v := c.c[c.i%len(c.c)] + c.i/len(c.c)
	c.i++
	return v % n
}

var attrListTags = map[string]bool{
	"EXT-X-START": true, "EXT-X-SERVER-CONTROL": true, "EXT-X-PART-INF": true, "EXT-X-SKIP": true, "EXT-X-MAP": true,
	"EXT-X-KEY": true, "EXT-X-PART": true, "EXT-X-PRELOAD-HINT": true, "EXT-X-STREAM-INF": true, "EXT-X-MEDIA": true,
}

// textVariants returns syntactic variants of text that must decode to the same value.
func textVariants(text string, ch *chooser) map[string]string {
	out := map[string]string{}
	lines := m3u8x.Lex(text)
	raw := m3u8x.SplitLines(text)

	// 1. attribute order permuted
	{
		var b strings.Builder
		ok := true
		for i, l := range lines {
			if l.Kind == m3u8x.Tag && attrListTags[l.Name] && l.HasVal && l.Value != "" {
				attrs, err := m3u8x.ParseAttrs(l.Value)
				if err != nil {
					ok = false
					break
				}
				// rotate + swap
				n := len(attrs)
				rot := ch.next(n)
				perm := append(append([]m3u8x.Attr{}, attrs[rot:]...), attrs[:rot]...)
				if n >= 2 {
					x, y := ch.next(n), ch.next(n)
					perm[x], perm[y] = perm[y], perm[x]
				}
				parts := make([]string, n)
				for k, a := range perm {
					parts[k] = a.Name + "=" + a.Raw
				}
				b.WriteString("#" + l.Name + ":" + strings.Join(parts, ",") + "\n")
			} else {
				b.WriteString(raw[i] + "\n")
			}
		}
		if ok {
			out["attribute-order"] = b.String()
		}
	}
	// 2. CRLF
	out["crlf"] = strings.ReplaceAll(text, "\n", "\r\n")
	// 3. unknown tags and comments inserted
	{
		unknown := []string{"#EXT-X-VERIF-UNKNOWN:FOO=1,BAR=\"x,y\"", "# a comment", "#EXT-X-DATERANGE:ID=\"d1\",START-DATE=\"2020-01-01T00:00:00Z\"", "#EXT-X-VERIF-FLAG", "#EXT-X-SESSION-DATA:DATA-ID=\"com.example\",VALUE=\"v\""}
		var b strings.Builder
		for i, l := range lines {
			b.WriteString(raw[i] + "\n")
			if i == 0 {
				continue // keep #EXTM3U followed by what was there? insertion after the header is fine too
			}
			if l.Kind == m3u8x.Tag && l.Name == "EXT-X-STREAM-INF" {
				continue // the URI line must directly follow
			}
			if ch.next(3) == 0 {
				b.WriteString(unknown[ch.next(len(unknown))] + "\n")
			}
		}
		b.WriteString(unknown[ch.next(len(unknown))] + "\n")
		out["unknown-tags"] = b.String()
	}
	// 4. unknown attributes appended
	{
		extra := []string{"X-VERIF=1", "X-VERIF-Q=\"a,b=c\"", "X-VERIF-HEX=0xAB"}
		var b strings.Builder
		for i, l := range lines {
			if l.Kind == m3u8x.Tag && attrListTags[l.Name] && l.HasVal && l.Value != "" && !strings.HasSuffix(l.Value, ",") {
				b.WriteString(raw[i] + "," + extra[ch.next(len(extra))] + "\n")
			} else {
				b.WriteString(raw[i] + "\n")
			}
		}
		out["unknown-attributes"] = b.String()
	}
	// 5. trailing newline removed
	out["no-trailing-newline"] = strings.TrimSuffix(text, "\n")
	return out
}

func mediaOptionalCount(m *playlist.Media) int {
	n := 0
	for _, b := range []bool{m.IndependentSegments, m.Start != nil, m.AllowCache != nil, m.ServerControl != nil, m.PartInf != nil,
		m.DiscontinuitySequence != nil, m.PlaylistType != nil, m.Map != nil, m.Skip != nil, len(m.Parts) > 0, m.PreloadHint != nil, m.Endlist} {
		if b {
			n++
		}
	}
	return n
}

func multiOptionalCount(m *playlist.Multivariant) int {
	n := 0
	if m.IndependentSegments {
		n++
	}
	if m.Start != nil {
		n++
	}
	n += len(m.Renditions)
	for _, v := range m.Variants {
		for _, b := range []bool{v.AverageBandwidth != nil, v.Resolution != "", v.FrameRate != nil, v.Video != "", v.Audio != "", v.Subtitles != "", v.ClosedCaptions != ""} {
			if b {
				n++
			}
		}
	}
	return n
}

func labelsOf(sc plScenario) (labels []string, nontrivial bool) {
	labels = append(labels, sc.Kind)
	if sc.Kind == "media" {
		m := sc.Media
		nontrivial = mediaOptionalCount(m) >= 3
		add := func(c bool, l string) {
			if c {
				labels = append(labels, l)
			}
		}
		add(m.Start != nil, "start")
		add(m.ServerControl != nil, "server-control")
		add(m.ServerControl != nil && !m.ServerControl.CanBlockReload, "server-control-no-block")
		add(m.DiscontinuitySequence != nil, "disc-seq")
		add(m.Map != nil, "map")
		add(m.Map != nil && m.Map.ByteRangeLength != nil, "map-byterange")
		add(m.Skip != nil, "skip")
		add(m.PreloadHint != nil, "preload-hint")
		add(len(m.Parts) > 0, "trailing-parts")
		keys, br, dt := 0, false, false
		var prev *playlist.MediaKey
		for _, s := range m.Segments {
			if s.Key != nil && (prev == nil || !s.Key.Equal(prev)) {
				keys++
			}
			prev = s.Key
			br = br || s.ByteRangeLength != nil
			dt = dt || s.DateTime != nil
		}
		add(keys >= 1, "key")
		add(keys >= 2, "key-change")
		add(br, "byterange")
		add(dt, "date-time")
	} else {
		nontrivial = multiOptionalCount(sc.Multi) >= 3
		for _, r := range sc.Multi.Renditions {
			labels = append(labels, "rendition-"+string(r.Type))
		}
	}
	return
}

func execRoundTrip(sc plScenario) core.Outcome {
	var o core.Outcome
	o.Labels, o.NonTrivial = labelsOf(sc)
	p := sc.value()
	t1, err := p.Marshal()
	if err != nil {
		return fail(o, "Marshal failed on a valid value: %v", err)
	}
	p2 := sc.fresh()
	if err := p2.Unmarshal(t1); err != nil {
		return fail(o, "Unmarshal(Marshal(p)) failed: %v\n%s", err, t1)
	}
	if d := diffPlaylists(p, p2); d != "" {
		return fail(o, "Unmarshal(Marshal(p)) != p at %s\n%s", d, t1)
	}
	t2, err := p2.Marshal()
	if err != nil {
		return fail(o, "second Marshal failed: %v", err)
	}
	if string(t1) != string(t2) {
		return fail(o, "Marshal is not a fixpoint on its own output:\n--- first\n%s--- second\n%s", t1, t2)
	}
	// playlist.Unmarshal picks the right kind
	p3, err := playlist.Unmarshal(t1)
	if err != nil {
		return fail(o, "playlist.Unmarshal failed on Marshal output: %v\n%s", err, t1)
	}
	switch p3.(type) {
	case *playlist.Media:
		if sc.Kind != "media" {
			return fail(o, "playlist.Unmarshal returned a Media playlist for a multivariant one\n%s", t1)
		}
	case *playlist.Multivariant:
		if sc.Kind != "multi" {
			return fail(o, "playlist.Unmarshal returned a Multivariant playlist for a media one\n%s", t1)
		}
	}
	if d := diffPlaylists(p2, p3); d != "" {
		return fail(o, "playlist.Unmarshal differs from the typed Unmarshal at %s", d)
	}
	// syntactic variants decode to the same value
	ch := &chooser{c: sc.Choices}
	for name, txt := range textVariants(string(t1), ch) {
		pv := sc.fresh()
		if err := pv.Unmarshal([]byte(txt)); err != nil {
			return fail(o, "variant %q no longer decodes: %v\n%s", name, err, txt)
		}
		if d := diffPlaylists(p2, pv); d != "" {
			return fail(o, "variant %q decodes to a different value at %s\n%s", name, d, txt)
		}
		pg, err := playlist.Unmarshal([]byte(txt))
		if err != nil {
			return fail(o, "variant %q: playlist.Unmarshal failed: %v\n%s", name, err, txt)
		}
		if d := diffPlaylists(p2, pg); d != "" {
			return fail(o, "variant %q: playlist.Unmarshal decodes to a different value at %s", name, d)
		}
		o.Labels = append(o.Labels, "variant:"+name)
	}
	// second, independent reader: the text carries the field values
	if v := crossCheckAST(sc, string(t1)); v != "" {
		return fail(o, "independent reader disagrees with the value: %s\n%s", v, t1)
	}
	return o
}

func fail(o core.Outcome, f string, a ...any) core.Outcome {
	o.Violation = fmt.Sprintf(f, a...)
	if len(o.Violation) > 3000 {
		o.Violation = o.Violation[:3000] + "…"
	}
	return o
}

var propC14 = core.Prop[plScenario]{
	ID: "C14",
	Rule: "rapid-generated playlist.Media / playlist.Multivariant values inside the documented field requirements (every optional field independently present or absent, " +
		"full 31-bit integers, durations >= 10us, date-times with any whole-minute zone, byte ranges, keys changing between segments, parts, hints, renditions of all four types); " +
		"oracles: Unmarshal(Marshal(p)) == p within 10us / 1ms, Marshal fixpoint, playlist.Unmarshal kind, five syntactic variants decode identically, independent m3u8x reader sees the same fields; " +
		"non-trivial = at least three optional tags/attributes present; distinct by value hash",
	Draw: drawPlaylistScenario,
	Exec: execRoundTrip,
}

func TestC14(t *testing.T) { core.Run(t, propC14) }
