package props

import (
	"bytes"
	"errors"
	"fmt"
	"strings"
	"syscall"
	"testing"
	"time"

	"github.com/bluenviron/gohlslib/v2"
	"github.com/bluenviron/mediacommon/v2/pkg/formats/fmp4"
	"github.com/bluenviron/mediacommon/v2/pkg/formats/fmp4/seekablebuffer"
	"pgregory.net/rapid"

	"verifharness/cli"
	"verifharness/core"
)

// ---- C13: malformed or unsupported server content cannot crash or wedge the client ----

type c13Mut struct {
	Target string `json:"target"` // lead-init | lead-seg | rend-init | rend-seg | lead-playlist | rend-playlist | primary
	Index  int    `json:"index"`
	Op     string `json:"op"`
	Arg    int    `json:"arg"`
	Data   []byte `json:"data,omitempty"`
}

type c13Scenario struct {
	Stream cli.StreamDef `json:"stream"`
	Entry  string        `json:"entry"`
	Muts   []c13Mut      `json:"muts"`
	// ExtraCodecs adds tracks of codecs the client has no type for to the leading init
	ExtraCodecs []string `json:"extra_codecs,omitempty"`
	ExtraFirst  bool     `json:"extra_first,omitempty"`
	// MixedRendition replaces the first rendition of an fMP4 stream by an MPEG-TS one
	MixedRendition bool `json:"mixed_rendition,omitempty"`
	// ExtraData: the segments carry track fragments of the extra (unsupported) tracks too
	ExtraData bool `json:"extra_data,omitempty"`
	// LL serves the leading playlist as a Low-Latency history (SERVER-CONTROL, PART-INF, a preload
	// hint naming the next segment, one more segment per reload); LLBreak damages the reloads:
	// "" | drop-server-control | drop-part-inf | hint-garbage | hint-missing-resource
	// MixedBadADTS: one audio frame of the MPEG-TS rendition (MixedRendition) has a broken ADTS header
	MixedBadADTS bool `json:"mixed_bad_adts,omitempty"`
	// RendBadADTS: one audio frame of the first MPEG-TS rendition has a broken ADTS header
	RendBadADTS bool   `json:"rend_bad_adts,omitempty"`
	LL          bool   `json:"ll,omitempty"`
	LLBreak     string `json:"ll_break,omitempty"`
}

var fmp4Ops = []string{"drop-leading-track", "drop-leading-track", "truncate", "truncate-box", "flip", "garbage", "empty", "zero-dur", "huge-dur", "huge-base", "drop-lead", "unknown-track", "dup-track", "no-samples", "swap-tracks"}
var initOps = []string{"truncate", "truncate-box", "flip", "garbage", "empty", "many-tracks", "dup-ids", "no-tracks", "unsupported-only", "shift-ids", "zero-timescale", "huge-timescale"}
var tsOps = []string{"truncate", "truncate-packet", "flip", "garbage", "empty", "drop-lead-pid", "no-tables", "bad-adts", "bad-adts"}
var playlistOps = []string{"bytes", "truncate", "flip", "empty", "no-segments", "huge-numbers", "bad-uri", "map-without-uri"}

// ops that only make sense on a multivariant playlist (all of them leave it well-formed or nearly so)
var primaryOps = []string{"rend-without-uri", "extra-rend-without-uri", "rend-unknown-group", "variant-without-codecs", "two-variants"}

func drawC13(t *rapid.T) c13Scenario {
	sc := c13Scenario{Stream: drawStream(t)}
	sc.Entry = "lead"
	if sc.Stream.Multi {
		sc.Entry = "multi"
	}
	if sc.Stream.Container == "fmp4" && rapid.IntRange(0, 2).Draw(t, "extra") == 0 {
		n := rapid.IntRange(1, 2).Draw(t, "nextra")
		for i := 0; i < n; i++ {
			sc.ExtraCodecs = append(sc.ExtraCodecs, rapid.SampledFrom([]string{"ac3", "mjpeg", "lpcm", "mpeg4video", "mpeg1video", "mpeg1audio"}).Draw(t, "xcodec"))
		}
		sc.ExtraFirst = rapid.Bool().Draw(t, "xfirst")
		sc.ExtraData = rapid.Bool().Draw(t, "xdata")
	}
	if !sc.Stream.Lead.ByteRange && rapid.IntRange(0, 5).Draw(t, "ll") == 0 {
		sc.LL = true
		sc.LLBreak = rapid.SampledFrom([]string{"", "drop-server-control", "drop-server-control", "drop-part-inf", "hint-garbage", "hint-missing-resource"}).Draw(t, "llbreak")
	}
	if sc.Stream.Container == "fmp4" && len(sc.Stream.Renditions) > 0 && rapid.IntRange(0, 3).Draw(t, "mixed") == 0 {
		sc.MixedRendition = true
		sc.MixedBadADTS = rapid.Bool().Draw(t, "mixedBadADTS")
	}
	if sc.Stream.Container == "mpegts" && len(sc.Stream.Renditions) > 0 && rapid.IntRange(0, 2).Draw(t, "rendBadADTS") == 0 {
		sc.RendBadADTS = true
	}
	nm := rapid.IntRange(0, 3).Draw(t, "nmut")
	if len(sc.ExtraCodecs) == 0 && !sc.MixedRendition && !sc.LL && !sc.RendBadADTS && nm == 0 {
		nm = 1
	}
	for i := 0; i < nm; i++ {
		var m c13Mut
		targets := []string{"lead-seg", "lead-seg", "lead-init", "lead-playlist", "primary"}
		if len(sc.Stream.Renditions) > 0 {
			targets = append(targets, "rend-seg", "rend-init", "rend-playlist")
		}
		m.Target = rapid.SampledFrom(targets).Draw(t, "target")
		m.Index = rapid.IntRange(0, 5).Draw(t, "index")
		m.Arg = rapid.IntRange(0, 1000).Draw(t, "arg")
		switch {
		case strings.HasSuffix(m.Target, "playlist") || m.Target == "primary":
			m.Op = rapid.SampledFrom(playlistOps).Draw(t, "plop")
			if m.Target == "primary" && sc.Stream.Multi && rapid.Bool().Draw(t, "primaryOp") {
				m.Op = rapid.SampledFrom(primaryOps).Draw(t, "primop")
			}
			if m.Op == "bytes" {
				m.Data = drawDecScenario(t).Text
			}
		case strings.HasSuffix(m.Target, "init"):
			if sc.Stream.Container == "mpegts" {
				m.Target = "lead-seg"
				m.Op = rapid.SampledFrom(tsOps).Draw(t, "tsop")
			} else {
				m.Op = rapid.SampledFrom(initOps).Draw(t, "initop")
			}
		default:
			if sc.Stream.Container == "mpegts" {
				m.Op = rapid.SampledFrom(tsOps).Draw(t, "tsop")
			} else {
				m.Op = rapid.SampledFrom(fmp4Ops).Draw(t, "segop")
			}
		}
		if m.Op == "garbage" {
			m.Data = rapid.SliceOfN(rapid.Byte(), 0, 400).Draw(t, "garbage")
		}
		sc.Muts = append(sc.Muts, m)
	}
	return sc
}

// breakADTS overwrites the sync word of the nth (0-based) ADTS frame that starts a PES payload in
// an MPEG-TS buffer. The PES stays well-formed; its audio frame does not decode.
func breakADTS(b []byte, nth int) ([]byte, bool) {
	c := append([]byte{}, b...)
	seen := 0
	for k := 0; k+188 <= len(c); k += 188 {
		pkt := c[k : k+188]
		if pkt[0] != 0x47 || pkt[1]&0x40 == 0 { // payload_unit_start only
			continue
		}
		off := 4
		if pkt[3]&0x20 != 0 { // adaptation field
			off += 1 + int(pkt[4])
		}
		if off+9 >= 188 || pkt[off] != 0 || pkt[off+1] != 0 || pkt[off+2] != 1 {
			continue
		}
		sid := pkt[off+3]
		if sid < 0xc0 || sid > 0xdf { // audio stream ids
			continue
		}
		p := off + 9 + int(pkt[off+8])
		if p+2 > 188 || pkt[p] != 0xff || pkt[p+1]&0xf0 != 0xf0 {
			continue
		}
		if seen == nth {
			pkt[p], pkt[p+1] = 0x12, 0x34
			return c, true
		}
		seen++
	}
	return b, false
}

// boxBoundaries lists the offsets at which top-level and second-level boxes start/end.
func boxBoundaries(b []byte) []int {
	var out []int
	var walk func(off, end, depth int)
	walk = func(off, end, depth int) {
		for off+8 <= end {
			sz := int(b[off])<<24 | int(b[off+1])<<16 | int(b[off+2])<<8 | int(b[off+3])
			if sz < 8 || off+sz > end {
				return
			}
			out = append(out, off, off+8)
			typ := string(b[off+4 : off+8])
			if depth < 3 && (typ == "moov" || typ == "trak" || typ == "mdia" || typ == "minf" || typ == "stbl" || typ == "moof" || typ == "traf" || typ == "mvex") {
				walk(off+8, off+sz, depth+1)
			}
			off += sz
		}
	}
	walk(0, len(b), 0)
	out = append(out, len(b))
	return out
}

func mutateBytes(b []byte, m c13Mut, container string) []byte {
	switch m.Op {
	case "truncate":
		if len(b) == 0 {
			return b
		}
		return b[:m.Arg*len(b)/1001]
	case "truncate-box":
		bs := boxBoundaries(b)
		if len(bs) == 0 {
			return b
		}
		return b[:bs[m.Arg%len(bs)]]
	case "truncate-packet":
		n := len(b) / 188
		if n == 0 {
			return b
		}
		cut := (m.Arg % n) * 188
		if m.Arg%3 == 0 {
			cut += 100 // mid packet
		}
		if cut > len(b) {
			cut = len(b)
		}
		return b[:cut]
	case "flip":
		if len(b) == 0 {
			return b
		}
		c := append([]byte{}, b...)
		for k := 0; k < 1+m.Arg%3; k++ {
			pos := (m.Arg*7919 + k*104729) % len(c)
			c[pos] ^= byte(1 << uint((m.Arg+k)%8))
			if m.Arg%5 == 0 {
				c[pos] = 0xff
			}
		}
		return c
	case "garbage":
		return m.Data
	case "empty":
		return []byte{}
	case "bad-adts":
		c, _ := breakADTS(b, 1+m.Arg%3)
		return c
	case "drop-lead-pid":
		// remove every packet of the first elementary PID (256): no data of the leading track
		var out []byte
		for k := 0; k+188 <= len(b); k += 188 {
			pid := (int(b[k+1]&0x1f) << 8) | int(b[k+2])
			if pid == 256 {
				continue
			}
			out = append(out, b[k:k+188]...)
		}
		return out
	case "no-tables":
		var out []byte
		for k := 0; k+188 <= len(b); k += 188 {
			pid := (int(b[k+1]&0x1f) << 8) | int(b[k+2])
			if pid == 0 || pid == 4096 {
				continue
			}
			out = append(out, b[k:k+188]...)
		}
		return out
	}
	// structure-aware fMP4 segment mutations
	var parts fmp4.Parts
	if err := parts.Unmarshal(b); err != nil || len(parts) == 0 {
		return b
	}
	switch m.Op {
	case "zero-dur":
		for _, p := range parts {
			for _, t := range p.Tracks {
				for _, s := range t.Samples {
					s.Duration = 0
				}
			}
		}
	case "huge-dur":
		for _, p := range parts {
			for _, t := range p.Tracks {
				for _, s := range t.Samples {
					s.Duration = 0xFFFFFFFF
				}
			}
		}
	case "huge-base":
		for _, p := range parts {
			for _, t := range p.Tracks {
				t.BaseTime = 1<<63 + uint64(m.Arg)
				if m.Arg%2 == 0 {
					t.BaseTime = 0xFFFFFFFFFFFFFFF0
				}
			}
		}
	case "drop-lead":
		for _, p := range parts {
			if len(p.Tracks) > 0 {
				// remove the track with the lowest id (and, with Arg odd, every track)
				p.Tracks = p.Tracks[1:]
				if m.Arg%2 == 1 {
					p.Tracks = nil
				}
			}
		}
	case "unknown-track":
		for _, p := range parts {
			for _, t := range p.Tracks {
				t.ID += 40 + m.Arg%3
			}
		}
	case "dup-track":
		for _, p := range parts {
			if len(p.Tracks) > 0 {
				p.Tracks = append(p.Tracks, p.Tracks[0], p.Tracks[0])
			}
		}
	case "no-samples":
		for _, p := range parts {
			for _, t := range p.Tracks {
				t.Samples = nil
			}
		}
	case "swap-tracks":
		for _, p := range parts {
			for _, t := range p.Tracks {
				t.ID = len(p.Tracks) + 1 - t.ID
				if t.ID < 1 {
					t.ID = 1
				}
			}
		}
	}
	var kept fmp4.Parts
	for _, p := range parts {
		if len(p.Tracks) > 0 || m.Op == "drop-lead" {
			kept = append(kept, p)
		}
	}
	var w seekablebuffer.Buffer
	if err := kept.Marshal(&w); err != nil {
		return b
	}
	return append([]byte{}, w.Bytes()...)
}

func mutateInit(b []byte, m c13Mut, extra []string, extraFirst bool) []byte {
	var init fmp4.Init
	if err := init.Unmarshal(bytes.NewReader(b)); err != nil {
		return b
	}
	switch m.Op {
	case "many-tracks":
		base := init.Tracks[0]
		for k := 0; k < 10+m.Arg%3; k++ {
			cp := *base
			cp.ID = len(init.Tracks) + 1
			init.Tracks = append(init.Tracks, &cp)
		}
	case "dup-ids":
		for _, t := range init.Tracks {
			t.ID = 1
		}
	case "no-tracks":
		init.Tracks = nil
	case "shift-ids":
		for _, t := range init.Tracks {
			t.ID += 1 + m.Arg%5
		}
	case "zero-timescale":
		for k, t := range init.Tracks {
			if m.Arg%2 == 0 || k == m.Arg%len(init.Tracks) {
				t.TimeScale = 0
			}
		}
	case "huge-timescale":
		for _, t := range init.Tracks {
			t.TimeScale = 0xFFFFFFFF
		}
	case "unsupported-only":
		for _, t := range init.Tracks {
			t.Codec = &fmp4.CodecMJPEG{Width: 320, Height: 240}
			if m.Arg%2 == 0 {
				t.Codec = &fmp4.CodecLPCM{BitDepth: 16, SampleRate: 48000, ChannelCount: 2}
			}
		}
	}
	var w seekablebuffer.Buffer
	if err := init.Marshal(&w); err != nil {
		return b
	}
	return append([]byte{}, w.Bytes()...)
}

func addExtraTracks(b []byte, extra []string, first bool) []byte {
	if len(extra) == 0 {
		return b
	}
	var init fmp4.Init
	if err := init.Unmarshal(bytes.NewReader(b)); err != nil {
		return b
	}
	var add []*fmp4.InitTrack
	for k, c := range extra {
		var codec fmp4.Codec
		switch c {
		case "ac3":
			codec = &fmp4.CodecAC3{SampleRate: 48000, ChannelCount: 2, Fscod: 0, Bsid: 8, Bsmod: 0, Acmod: 2, BitRateCode: 7}
		case "mjpeg":
			codec = &fmp4.CodecMJPEG{Width: 640, Height: 480}
		case "mpeg4video":
			codec = &fmp4.CodecMPEG4Video{Config: []byte{0, 0, 1, 0xb0, 1, 0, 0, 1, 0xb5, 0x89, 0x13}}
		case "mpeg1video":
			codec = &fmp4.CodecMPEG1Video{Config: []byte{0, 0, 1, 0xb3, 0x28, 0x01, 0xe0, 0x13, 0xff, 0xff, 0xe0, 0x18}}
		case "mpeg1audio":
			codec = &fmp4.CodecMPEG1Audio{SampleRate: 48000, ChannelCount: 2}
		default:
			codec = &fmp4.CodecLPCM{BitDepth: 16, SampleRate: 48000, ChannelCount: 2}
		}
		add = append(add, &fmp4.InitTrack{ID: 20 + k, TimeScale: 48000, Codec: codec})
	}
	if first {
		init.Tracks = append(add, init.Tracks...)
	} else {
		init.Tracks = append(init.Tracks, add...)
	}
	var w seekablebuffer.Buffer
	if err := init.Marshal(&w); err != nil {
		return b
	}
	return append([]byte{}, w.Bytes()...)
}

func mutatePlaylist(txt string, m c13Mut) string {
	switch m.Op {
	case "bytes":
		return string(m.Data)
	case "truncate":
		return txt[:m.Arg*len(txt)/1001]
	case "flip":
		return string(mutateBytes([]byte(txt), c13Mut{Op: "flip", Arg: m.Arg}, ""))
	case "empty":
		return ""
	case "no-segments":
		var sb strings.Builder
		for _, l := range strings.SplitAfter(txt, "\n") {
			if strings.HasPrefix(l, "#EXTINF") || (!strings.HasPrefix(l, "#") && strings.TrimSpace(l) != "") {
				continue
			}
			sb.WriteString(l)
		}
		return sb.String()
	case "huge-numbers":
		r := strings.NewReplacer("#EXT-X-MEDIA-SEQUENCE:0", "#EXT-X-MEDIA-SEQUENCE:2147483647", "#EXT-X-TARGETDURATION:1", "#EXT-X-TARGETDURATION:2147483647", "BANDWIDTH=100000", "BANDWIDTH=2147483647")
		return r.Replace(txt)
	case "bad-uri":
		var sb strings.Builder
		k := 0
		for _, l := range strings.SplitAfter(txt, "\n") {
			if !strings.HasPrefix(l, "#") && strings.TrimSpace(l) != "" {
				k++
				if k%2 == m.Arg%2 {
					l = []string{"http://[::1:bad/x\n", "%zz\n", "://\n", "nosuch_resource.bin\n", "\x00\n"}[m.Arg%5]
				}
			}
			sb.WriteString(l)
		}
		return sb.String()
	case "map-without-uri":
		return strings.Replace(txt, "#EXT-X-MAP:URI=", "#EXT-X-MAP:BYTERANGE=\"1@0\",X=", 1)
	case "rend-without-uri":
		// a rendition whose media is carried by the variant itself has no URI (RFC 8216 4.3.4.1)
		if i := strings.Index(txt, ",URI=\"rend"); i >= 0 {
			if j := strings.Index(txt[i+6:], "\""); j >= 0 {
				return txt[:i] + txt[i+6+j+1:]
			}
		}
		return withExtraRendition(txt)
	case "extra-rend-without-uri":
		return withExtraRendition(txt)
	case "rend-unknown-group":
		return strings.Replace(txt, "GROUP-ID=\"aud\"", "GROUP-ID=\"other\"", 1)
	case "variant-without-codecs":
		return strings.Replace(txt, ",CODECS=\"avc1.42c028,mp4a.40.2\"", "", 1)
	case "two-variants":
		return txt + "#EXT-X-STREAM-INF:BANDWIDTH=50000,CODECS=\"avc1.42c028\"\nlead.m3u8\n"
	}
	return txt
}

// withExtraRendition adds an audio rendition without URI ("the audio is in the variant") to the
// group of the first variant, creating the group when the variant has none.
func withExtraRendition(txt string) string {
	line := "#EXT-X-MEDIA:TYPE=AUDIO,GROUP-ID=\"aud\",NAME=\"muxed\",AUTOSELECT=YES\n"
	i := strings.Index(txt, "#EXT-X-STREAM-INF:")
	if i < 0 {
		return txt
	}
	head, tail := txt[:i], txt[i:]
	if !strings.Contains(tail, "AUDIO=\"aud\"") {
		if j := strings.Index(tail, "\n"); j >= 0 {
			tail = tail[:j] + ",AUDIO=\"aud\"" + tail[j:]
		}
	}
	return head + line + tail
}

// addExtraSamples appends, to every fragment of an fMP4 segment, a track fragment with two
// samples for each extra (unsupported) track declared by addExtraTracks.
func addExtraSamples(b []byte, extra []string, first bool) []byte {
	var parts fmp4.Parts
	if err := parts.Unmarshal(b); err != nil || len(parts) == 0 {
		return b
	}
	for _, p := range parts {
		if len(p.Tracks) == 0 {
			continue
		}
		var add []*fmp4.PartTrack
		for k := range extra {
			add = append(add, &fmp4.PartTrack{ID: 20 + k, BaseTime: p.Tracks[0].BaseTime, Samples: []*fmp4.PartSample{
				{Duration: 480, Payload: []byte{0xde, 0xad, byte(k), 1}},
				{Duration: 480, Payload: []byte{0xde, 0xad, byte(k), 2}},
			}})
		}
		if first {
			p.Tracks = append(add, p.Tracks...)
		} else {
			p.Tracks = append(p.Tracks, add...)
		}
	}
	var w seekablebuffer.Buffer
	if err := parts.Marshal(&w); err != nil {
		return b
	}
	return append([]byte{}, w.Bytes()...)
}

func cpuTime() time.Duration {
	var ru syscall.Rusage
	if err := syscall.Getrusage(syscall.RUSAGE_SELF, &ru); err != nil {
		return 0
	}
	return time.Duration(ru.Utime.Nano() + ru.Stime.Nano())
}

func execC13(sc c13Scenario) core.Outcome {
	var o core.Outcome
	b, err := cli.Build(sc.Stream)
	if err != nil {
		o.Skip = true
		return o
	}
	brokenADTS := false // exactly the damage a demuxer reports and skips
	brokenURL := ""     // the resource that carries it
	files := map[string][]byte{}
	for k, v := range b.Files {
		files[k] = v
	}
	all := append([]*cli.BuiltPlaylist{b.Lead}, b.Renditions...)
	texts := map[string]string{"index.m3u8": cli.MultivariantText(b)}
	for _, bp := range all {
		texts[bp.Path] = cli.MediaPlaylistText(bp, sc.Stream.Container, 0, 0, len(bp.SegURIs), sc.Stream.VOD, true, nil)
	}
	if len(sc.ExtraCodecs) > 0 && b.Lead.InitURI != "" && !b.Lead.Def.ByteRange {
		files[b.Lead.InitURI] = addExtraTracks(files[b.Lead.InitURI], sc.ExtraCodecs, sc.ExtraFirst)
		o.Labels = append(o.Labels, "unsupported-codec-track")
		if sc.ExtraData {
			for _, u := range b.Lead.SegURIs {
				files[u] = addExtraSamples(files[u], sc.ExtraCodecs, sc.ExtraFirst)
			}
			o.Labels = append(o.Labels, "unsupported-codec-track-with-data")
		}
	}
	if sc.RendBadADTS && len(b.Renditions) > 0 && !b.Renditions[0].Def.ByteRange && len(b.Renditions[0].SegURIs) >= 2 {
		bp := b.Renditions[0]
		u := bp.SegURIs[len(bp.SegURIs)-1]
		if c, ok := breakADTS(files[u], 1); ok {
			files[u] = c
			brokenADTS, brokenURL = true, u
			o.Labels = append(o.Labels, "ts-rendition-bad-adts")
		}
	}
	for _, m := range sc.Muts {
		pick := func(rend bool) *cli.BuiltPlaylist {
			if rend && len(b.Renditions) > 0 {
				return b.Renditions[m.Index%len(b.Renditions)]
			}
			return b.Lead
		}
		o.Labels = append(o.Labels, "mut:"+m.Target+":"+m.Op)
		switch m.Target {
		case "primary":
			if sc.Entry == "multi" {
				texts["index.m3u8"] = mutatePlaylist(texts["index.m3u8"], m)
			} else {
				texts[b.Lead.Path] = mutatePlaylist(texts[b.Lead.Path], m)
			}
		case "lead-playlist", "rend-playlist":
			bp := pick(m.Target == "rend-playlist")
			texts[bp.Path] = mutatePlaylist(texts[bp.Path], m)
		case "lead-init", "rend-init":
			bp := pick(m.Target == "rend-init")
			if bp.InitURI == "" || bp.Def.ByteRange {
				continue
			}
			switch m.Op {
			case "truncate", "truncate-box", "flip", "garbage", "empty":
				files[bp.InitURI] = mutateBytes(files[bp.InitURI], m, sc.Stream.Container)
			default:
				files[bp.InitURI] = mutateInit(files[bp.InitURI], m, nil, false)
			}
		case "lead-seg", "rend-seg":
			bp := pick(m.Target == "rend-seg")
			if bp.Def.ByteRange {
				// one resource holds everything: mutate it as a whole (byte-level ops only)
				switch m.Op {
				case "truncate", "flip", "garbage", "empty":
					files[bp.SegURIs[0]] = mutateBytes(files[bp.SegURIs[0]], m, sc.Stream.Container)
				}
				continue
			}
			u := bp.SegURIs[m.Index%len(bp.SegURIs)]
			if m.Op == "drop-leading-track" {
				// the fragments of the stream's leading track are removed from one segment, the other
				// tracks stay
				var parts fmp4.Parts
				if err := parts.Unmarshal(files[u]); err == nil && len(parts) > 0 {
					for _, p := range parts {
						var keep []*fmp4.PartTrack
						for _, t := range p.Tracks {
							if t.ID != bp.LeadTrack+1 {
								keep = append(keep, t)
							}
						}
						p.Tracks = keep
					}
					var w seekablebuffer.Buffer
					if err := parts.Marshal(&w); err == nil {
						files[u] = append([]byte{}, w.Bytes()...)
					}
				}
				continue
			}
			if m.Op == "bad-adts" {
				// not in the first segment the client reads: track discovery parses its first frame
				if sc.Stream.Container != "mpegts" || len(bp.SegURIs) < 2 {
					continue
				}
				u = bp.SegURIs[len(bp.SegURIs)-1]
				c, ok := breakADTS(files[u], 1+m.Arg%3)
				if ok {
					files[u] = c
					brokenADTS, brokenURL = true, u
				}
				continue
			}
			files[u] = mutateBytes(files[u], m, sc.Stream.Container)
		}
	}
	if sc.MixedRendition && len(b.Renditions) > 0 {
		// the first rendition becomes an MPEG-TS stream although the leading playlist is fMP4
		var tsd cli.StreamDef
		tsd.Container = "mpegts"
		tsd.VOD = sc.Stream.VOD
		tpl := cli.PlaylistDef{Tracks: []cli.TrackDef{{Codec: "aac", TimeScale: 90000, SampleDur: 1800}}}
		for range b.Renditions[0].SegURIs {
			tpl.Segs = append(tpl.Segs, cli.SegShape{Frags: [][]int{{2}}, Date: true})
		}
		tsd.Lead = tpl
		if tb, err := cli.Build(tsd); err == nil {
			for p, f := range tb.Files {
				files["mix_"+p] = f
			}
			if sc.MixedBadADTS && len(tb.Lead.SegURIs) > 1 {
				u := "mix_" + tb.Lead.SegURIs[1]
				if c, ok := breakADTS(files[u], 1); ok {
					files[u] = c
					brokenADTS, brokenURL = true, u
					o.Labels = append(o.Labels, "mixed-rendition-bad-adts")
				}
			}
			cp := *tb.Lead
			cp.SegURIs = nil
			for _, u := range tb.Lead.SegURIs {
				cp.SegURIs = append(cp.SegURIs, "mix_"+u)
			}
			texts[b.Renditions[0].Path] = cli.MediaPlaylistText(&cp, "mpegts", 0, 0, len(cp.SegURIs), sc.Stream.VOD, true, nil)
			o.Labels = append(o.Labels, "mixed-containers")
		}
	}
	srv := cli.NewServer()
	for p, f := range files {
		srv.AddFile(p, f)
	}
	for p, txt := range texts {
		srv.AddPlaylist(p, txt)
	}
	if sc.LL && !b.Lead.Def.ByteRange && len(b.Lead.SegURIs) >= 2 {
		// Low-Latency history of the leading playlist: snapshot k lists segments 0..k and hints at
		// segment k+1; the last one has no hint and ends. Reloads may be damaged.
		var snaps []string
		n := len(b.Lead.SegURIs)
		for k := 0; k < n; k++ {
			extra := []string{"#EXT-X-SERVER-CONTROL:CAN-BLOCK-RELOAD=YES,PART-HOLD-BACK=0.3,CAN-SKIP-UNTIL=12.0", "#EXT-X-PART-INF:PART-TARGET=0.1"}
			if k >= 1 {
				switch sc.LLBreak {
				case "drop-server-control":
					extra = extra[1:]
				case "drop-part-inf":
					extra = extra[:1]
				}
			}
			txt := cli.MediaPlaylistText(b.Lead, sc.Stream.Container, 0, 0, k+1, false, k == n-1, extra)
			if k < n-1 {
				hint := b.Lead.SegURIs[k+1]
				if k >= 1 && sc.LLBreak == "hint-missing-resource" {
					hint = "nosuch_part.mp4"
				}
				txt += fmt.Sprintf("#EXT-X-PRELOAD-HINT:TYPE=PART,URI=\"%s\"\n", hint)
				if k >= 1 && sc.LLBreak == "hint-garbage" {
					txt += "#EXT-X-PRELOAD-HINT:TYPE=PART\n"
				}
			}
			snaps = append(snaps, txt)
		}
		srv.AddPlaylist(b.Lead.Path, snaps...)
		o.Labels = append(o.Labels, "low-latency-history", "ll-break:"+sc.LLBreak)
	}
	uri := "http://stream.test/lead.m3u8"
	if sc.Entry == "multi" {
		uri = "http://stream.test/index.m3u8"
	}
	cpu0, t0 := cpuTime(), time.Now()
	r := cli.RunClient(cli.RunOpts{URI: uri, Server: srv, CloseAtRequest: -1, MaxWait: 45 * time.Second, MaxIdle: 13 * time.Second, SkipLeakCheck: false})
	cpu, wall := cpuTime()-cpu0, time.Since(t0)
	if r.StartErr != nil {
		return o // rejected at Start: clean
	}
	if r.OnTracksCalls > 0 {
		o.NonTrivial = len(r.Requests) >= 2
	}
	if len(r.Requests) >= 2 {
		o.NonTrivial = true
	}
	if strings.HasPrefix(fmt.Sprint(r.WaitErr), "HARNESS:") {
		return fail(o, "the client neither ends nor honours Close; requests %v", reqURLs(r.Requests))
	}
	if !r.WaitReturned && !r.Idle {
		// still delivering or requesting after 45 s: mutated timestamps can make the client pace
		// every unit for up to 10 s (beyond that it gives up by design), which is slow, not wedged
		o.Skip = true
		o.Labels = append(o.Labels, "still-active-after-45s")
		return o
	}
	if !r.WaitReturned {
		// every playlist of the scenario either ends (ENDLIST) or stops evolving; the client never
		// paces a unit for more than 10 s: 13 s without any request or delivered unit is a wedge
		return fail(o, "the client neither finished, failed, requested nor delivered anything for 13 s (it did end after Close: %v): wedged; requests %v", r.WaitErr, reqURLs(r.Requests))
	}
	fetchedBroken := false
	for _, q := range r.Requests {
		if brokenURL != "" && strings.HasSuffix(strings.SplitN(q.URL, "?", 2)[0], brokenURL) {
			fetchedBroken = true
		}
	}
	onlyADTS := true // no other damage that could explain a quiet client
	for _, m := range sc.Muts {
		if m.Op != "bad-adts" {
			onlyADTS = false
		}
	}
	if brokenADTS && fetchedBroken && onlyADTS && errors.Is(r.WaitErr, gohlslib.ErrClientEOS) && len(r.DecodeErrors) == 0 {
		// "skips the unusable piece (reporting through OnDecodeError ...) or ends with an error"
		return fail(o, "an audio frame with a broken ADTS header was skipped silently: the client ended with ErrClientEOS and OnDecodeError was never called; requests %v", reqURLs(r.Requests))
	}
	for _, ti := range r.Tracks {
		if ti.Codec == "nil" {
			return fail(o, "OnTracks exposed a track without codec (unsupported codec in the init segment); tracks %+v", r.Tracks)
		}
	}
	// no busy loop: bounded request rate and CPU
	if len(r.Requests) > 400 {
		return fail(o, "%d requests in %v: the client is spinning; first ones %v", len(r.Requests), wall, reqURLs(r.Requests[:12]))
	}
	if wall >= 700*time.Millisecond && float64(cpu) > 0.8*float64(wall) {
		return fail(o, "the client used %v of CPU in %v of wall-clock time without ending: busy loop", cpu, wall)
	}
	if len(r.Leaked) > 0 {
		return fail(o, "client goroutines left after Wait() yielded %q: %v", r.WaitErr, r.Leaked)
	}
	if r.SecondValue {
		return fail(o, "a second value was received from Wait()")
	}
	if r.CallbacksAfter > 0 {
		return fail(o, "%d callbacks after Wait() yielded", r.CallbacksAfter)
	}
	return o
}

var propC13 = core.Prop[c13Scenario]{
	ID:       "C13",
	CrashLog: true,
	Rule: "a C10 stream with 0-3 mutations applied before serving (optionally served as a Low-Latency history whose reloads lose SERVER-CONTROL / PART-INF or name a bad preload hint; multivariant playlists with renditions without URI, unknown groups, no CODECS, two variants; extra unsupported tracks with or without data in the segments): arbitrary / hostile bytes as primary or media playlist, playlists truncated, flipped, emptied, without segments, with huge numbers, bad URIs or a MAP without URI; init segments truncated at box boundaries, flipped, replaced by garbage, with >10 tracks, duplicate / shifted ids, no tracks, only unsupported codecs, or extra tracks of codecs gohlslib has no type for (AC-3, MJPEG, LPCM, MPEG-4/MPEG-1 video, MPEG-1 audio); fMP4 segments with zero / huge durations, huge base times, no leading-track data, unknown / duplicate / swapped track ids, empty truns, truncation; MPEG-TS segments truncated at / inside packets, without PAT/PMT, without the leading PID; " +
		"oracle: the test process survives (a panic in a client goroutine kills it: the scenario is logged before execution), the client is never silent for 13 s - no request, no delivered unit, no value from Wait() - (all playlists end or stop evolving and the client never paces a unit for more than 10 s; otherwise it is wedged and must at least honour Close; runs still active after 45 s are skipped), <= 400 requests and < 80% CPU, no track without codec exposed, no goroutine left; non-trivial = the client got past its first request",
	Draw: drawC13,
	Exec: execC13,
}

func TestC13(t *testing.T) { core.Run(t, propC13) }

// FuzzC13Playlist: coverage-guided bytes served as the primary playlist and as every media
// playlist it may reference. A panic in a client goroutine kills the fuzz worker.
func FuzzC13Playlist(f *testing.F) {
	addFuzzSeeds(f)
	var sd cli.StreamDef
	sd.Container = "fmp4"
	sd.VOD = true
	pl := cli.PlaylistDef{Tracks: []cli.TrackDef{{Codec: "h264", TimeScale: 90000, SampleDur: 900}}}
	for i := 0; i < 3; i++ {
		pl.Segs = append(pl.Segs, cli.SegShape{Frags: [][]int{{1}}, Date: true})
	}
	sd.Lead = pl
	b, err := cli.Build(sd)
	if err != nil {
		f.Fatal(err)
	}
	f.Add([]byte(cli.MediaPlaylistText(b.Lead, "fmp4", 0, 0, 3, true, true, nil)))
	f.Add([]byte(cli.MultivariantText(b)))
	f.Fuzz(func(t *testing.T, data []byte) {
		srv := cli.NewServer()
		for p, fl := range b.Files {
			srv.AddFile(p, fl)
		}
		// whatever URI the bytes name as media playlist resolves to the same bytes or to the valid one
		srv.AddPlaylist("index.m3u8", string(data))
		srv.AddPlaylist("lead.m3u8", string(data), cli.MediaPlaylistText(b.Lead, "fmp4", 0, 0, 3, true, true, nil))
		r := cli.RunClient(cli.RunOpts{URI: "http://stream.test/index.m3u8", Server: srv, CloseAtRequest: -1, MaxWait: 400 * time.Millisecond, SkipLeakCheck: true})
		if strings.HasPrefix(fmt.Sprint(r.WaitErr), "HARNESS:") {
			t.Fatalf("VIOLATION C13: client neither ends nor honours Close on playlist %q", data)
		}
		if len(r.Requests) > 400 {
			t.Fatalf("VIOLATION C13: %d requests: spinning on playlist %q", len(r.Requests), data)
		}
	})
}
