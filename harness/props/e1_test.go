package props

import (
	"fmt"
	"os"
	"sort"
	"testing"

	"pgregory.net/rapid"

	"verifharness/core"
	"verifharness/mux"
)

// Muxer-history engine (E1): one real Muxer per case, model in lock step, every playlist and
// every listed URI fetched and decoded after each rotation.

type e1Scenario struct {
	Script       mux.Script `json:"script"`
	Query        string     `json:"query,omitempty"`
	ObserveEvery int        `json:"observe_every,omitempty"`
	Probe        bool       `json:"probe,omitempty"`
	DecodeEvery  int        `json:"decode_every,omitempty"`
}

var allVariants = []int{mux.VariantMPEGTS, mux.VariantFMP4, mux.VariantLL}

func drawE1(p mux.Profile, observeEvery int, probe bool, queries bool) func(t *rapid.T) e1Scenario {
	return func(t *rapid.T) e1Scenario {
		sc := e1Scenario{Script: mux.DrawScript(t, p), ObserveEvery: observeEvery, Probe: probe}
		if queries && rapid.Bool().Draw(t, "withQuery") {
			sc.Query = rapid.SampledFrom([]string{"a=1", "token=abc&x=y", "token=abc&id=5", "k=v%20w", "z=1&_HLS_skip=NO"}).Draw(t, "query")
		}
		return sc
	}
}

func scriptLabels(sc mux.Script, r *mux.E1Result) []string {
	cfg := sc.Config
	ls := []string{fmt.Sprintf("variant=%d", cfg.Variant)}
	shape := ""
	codecs := map[string]bool{}
	for _, t := range cfg.Tracks {
		if t.IsVideo() {
			shape += "V"
		} else {
			shape += "A"
		}
		codecs[t.Codec] = true
	}
	ls = append(ls, "tracks="+shape)
	var cs []string
	for c := range codecs {
		cs = append(cs, c)
	}
	sort.Strings(cs)
	for _, c := range cs {
		ls = append(ls, "codec:"+c)
	}
	if cfg.Disk {
		ls = append(ls, "disk")
	}
	multiAU, negStart, midGOP, pocReorder := false, false, false, false
	firstVideo := true
	for _, op := range sc.Ops {
		if op.N > 1 {
			multiAU = true
		}
		if op.TS < 0 {
			negStart = true
		}
		if cfg.Tracks[op.Track].IsVideo() && firstVideo {
			firstVideo = false
			midGOP = op.Kind != mux.KindRA
		}
		if op.Tmpl > 0 && cfg.Tracks[op.Track].Codec != "av1" {
			pocReorder = true
		}
	}
	for c, l := range map[bool]string{} {
		_ = c
		_ = l
	}
	if multiAU {
		ls = append(ls, "multiAU")
	}
	if negStart {
		ls = append(ls, "negativeStart")
	}
	if midGOP {
		ls = append(ls, "midGOP")
	}
	if pocReorder {
		ls = append(ls, "ptsReorder")
	}
	for ti, tr := range cfg.Tracks {
		_ = ti
		if tr.Codec == "h264" && mux.IsH264Reorder(tr.Params) {
			ls = append(ls, "h264Reorder")
			if cfg.Variant == mux.VariantMPEGTS {
				ls = append(ls, "h264Reorder:mpegts")
			}
		}
	}
	if r != nil {
		for l := range r.Labels {
			ls = append(ls, l)
		}
		if r.ParamChanges > 0 {
			ls = append(ls, "paramChange")
		}
		for k, v := range r.Decisions {
			if v > 0 {
				ls = append(ls, "decision:"+k)
			}
		}
		if r.TargetGrew {
			ls = append(ls, "targetGrew")
		}
		switch {
		case r.Completed >= 1000:
			ls = append(ls, "segments>=1000")
		case r.Completed >= 200:
			ls = append(ls, "segments:200-999")
		case r.Completed >= 50:
			ls = append(ls, "segments:50-199")
		case r.Completed >= 10:
			ls = append(ls, "segments:10-49")
		default:
			ls = append(ls, "segments<10")
		}
		switch {
		case r.Slides >= 100:
			ls = append(ls, "windowSlides>=100")
		case r.Slides >= 10:
			ls = append(ls, "windowSlides:10-99")
		case r.Slides >= 1:
			ls = append(ls, "windowSlides:1-9")
		}
		if r.RejectedForSize {
			ls = append(ls, "rejectedForSize")
		}
		if r.Skip != "" {
			ls = append(ls, "skip")
		}
	}
	return ls
}

func runE1(sc e1Scenario, focus string) *mux.E1Result {
	return mux.RunE1(sc.Script, mux.E1Opts{
		ObserveEvery: sc.ObserveEvery, Query: sc.Query, ProbeUnknown: sc.Probe, TmpBase: os.Getenv("VERIF_TMP"), DecodeEvery: sc.DecodeEvery, Focus: focus,
	})
}

// e1Prop builds the property for one id: violations tagged with that id fail the case;
// violations of other properties found on the way are labelled (they belong to those checks).
func e1Prop(id, rule string, p mux.Profile, observeEvery int, probe, queries bool, nontrivial func(sc e1Scenario, r *mux.E1Result) bool) core.Prop[e1Scenario] {
	return core.Prop[e1Scenario]{
		ID:   id,
		Rule: rule,
		Draw: drawE1(p, observeEvery, probe, queries),
		Exec: func(sc e1Scenario) core.Outcome {
			r := runE1(sc, id)
			var o core.Outcome
			o.Labels = scriptLabels(sc.Script, r)
			if r.Skip != "" {
				o.Skip = true
				return o
			}
			o.NonTrivial = nontrivial(sc, r)
			for p := range r.Foreign {
				o.Labels = append(o.Labels, "other-property-violated:"+p)
			}
			if m := r.Has(id); m != "" {
				o.Violation = m
			}
			return o
		},
	}
}

var profContent = mux.Profile{Name: "content", Variants: allVariants, LeadUnits: [2]int{20, 160}, MaxAudio: 3, ParamRate: 6, AllowDisk: true}
var profBoundary = mux.Profile{Name: "boundaries", Variants: allVariants, LeadUnits: [2]int{30, 220}, MaxAudio: 2, Boundary: true, ParamRate: 12, AllowDisk: false, HalfSecond: true}
var profDurations = mux.Profile{Name: "durations", Variants: allVariants, LeadUnits: [2]int{30, 200}, MaxAudio: 2, Durations: true, ParamRate: 3, HalfSecond: true}
var profLong = mux.Profile{Name: "long", Variants: allVariants, LeadUnits: [2]int{200, 1500}, MaxAudio: 2, Long: true, ParamRate: 1, AllowDisk: true}
var profTracks = mux.Profile{Name: "tracks", Variants: allVariants, LeadUnits: [2]int{20, 90}, MaxAudio: 4, ParamRate: 15, AllowDisk: true}
var profRetention = mux.Profile{Name: "retention", Variants: allVariants, LeadUnits: [2]int{150, 1200}, MaxAudio: 2, Long: true, SmallMax: true, ParamRate: 1, AllowDisk: true}

var propC01 = e1Prop("C01",
	"scripts of profile 'content' (all variants x track sets x codecs x RAM/disk, mid-GOP and negative starts, multi-AU audio, parameter changes, random interleavings); every listed segment decoded with mediacommon and compared unit by unit (bytes, order, dts, pts offset, duration, sync flag, contiguous base times) with the reference model; non-trivial = >= 2 completed segments and units decoded",
	profContent, 1, false, false,
	func(sc e1Scenario, r *mux.E1Result) bool { return r.Completed >= 2 && r.UnitsDecoded > 0 })

var propC02 = e1Prop("C02",
	"scripts of profile 'boundaries' (key-frame spacing at 0.25..3x SegmentMinDuration incl. +-1 unit, parameter changes on random-access / inter / parameter-only units); segment boundaries, first-unit random access, PAT/PMT, init contents and same-instant cuts compared with the model; non-trivial = >= 3 boundaries with at least two different decision kinds",
	profBoundary, 1, false, false,
	func(sc e1Scenario, r *mux.E1Result) bool {
		kinds := 0
		for _, k := range []string{"min-reached", "min-not-reached", "param"} {
			if r.Decisions[k] > 0 {
				kinds++
			}
		}
		return r.Completed >= 3 && kinds >= 2
	})

var propC03 = e1Prop("C03",
	"scripts of profile 'durations' (irregular frame durations, odd sample rates); EXTINF / PART DURATION / PROGRAM-DATE-TIME / TARGETDURATION / PART-TARGET / PART-HOLD-BACK / CAN-SKIP-UNTIL of every playlist response compared with exact rational durations from the model and decoded media; non-trivial = TARGETDURATION grew or a segment duration is not a multiple of 10us",
	profDurations, 1, false, false,
	func(sc e1Scenario, r *mux.E1Result) bool { return r.Completed >= 2 && (r.TargetGrew || r.NonMultiple) })

var propC04 = e1Prop("C04",
	"scripts of profile 'long' (hundreds of rotations, window sliding many times, SegmentCount 3..12); history invariants over successive playlists per stream and across streams; non-trivial = window slid >= 2 x SegmentCount times",
	profLong, 4, false, true,
	func(sc e1Scenario, r *mux.E1Result) bool { return r.Slides >= 2*sc.Script.Config.SegmentCount })

var propC05 = e1Prop("C05",
	"scripts of profiles 'content' with RAM/disk; every listed segment/part/init URI fetched when first listed and re-fetched later (identical bytes, also after Finalize on disk), segment == concat(parts), fragment sequence == part number, expired and unknown URIs probed; non-trivial = a URI was re-fetched (disk: after leaving RAM) or an expired URI was probed",
	mux.Profile{Name: "content-fetch", Variants: []int{mux.VariantLL, mux.VariantLL, mux.VariantFMP4, mux.VariantMPEGTS}, LeadUnits: [2]int{40, 300}, MaxAudio: 2, ParamRate: 3, AllowDisk: true, SegCountMax: 8}, 2, true, true,
	func(sc e1Scenario, r *mux.E1Result) bool { return r.Refetched > 0 || r.ExpiredProbed > 0 })

var propC16 = e1Prop("C16",
	"scripts of profile 'tracks' (every track-list shape Start accepts, 0-4 audio, names/languages/default flags, query strings, frequent parameter changes); multivariant playlist checked after every rotation; non-trivial = >= 2 renditions or a parameter change observed",
	profTracks, 1, false, true,
	func(sc e1Scenario, r *mux.E1Result) bool {
		return r.Observed > 0 && (r.Renditions >= 2 || r.ParamChanges > 0)
	})

var propC18 = e1Prop("C18",
	"scripts of profile 'retention' (long histories, small SegmentMaxSize with payloads straddling it, RAM/disk); listed count, directory contents, URL table size (hook), expired segment/part URIs, rejection of oversized writes; non-trivial = >= 10 x SegmentCount rotations or a write rejected for size",
	profRetention, 4, true, false,
	func(sc e1Scenario, r *mux.E1Result) bool {
		return r.Completed >= 10*sc.Script.Config.SegmentCount || (r.RejectedForSize && r.Completed >= 2)
	})

// C15, muxer half: every playlist a muxer serves parses under the strict grammar.
var propC15Muxer = func() core.Prop[e1Scenario] {
	p := e1Prop("C15",
		"muxer half: scripts of profile 'tracks' (all variants, names/languages, query strings, parameter changes) and every media / multivariant playlist served during them; oracle: harness/m3u8x.Strict accepts each one; non-trivial = at least 5 observations of a Low-Latency or multi-rendition muxer",
		profTracks, 1, false, true,
		func(sc e1Scenario, r *mux.E1Result) bool {
			return r.Observed >= 5 && (sc.Script.Config.Variant == mux.VariantLL || r.Renditions >= 1)
		})
	p.Sub = "muxer"
	return p
}()

func TestC15Muxer(t *testing.T) { core.Run(t, propC15Muxer) }

func TestC01(t *testing.T) { core.Run(t, propC01) }
func TestC02(t *testing.T) { core.Run(t, propC02) }
func TestC03(t *testing.T) { core.Run(t, propC03) }
func TestC04(t *testing.T) { core.Run(t, propC04) }
func TestC05(t *testing.T) { core.Run(t, propC05) }
func TestC16(t *testing.T) { core.Run(t, propC16) }
func TestC18(t *testing.T) { core.Run(t, propC18) }

// ---- C19 -------------------------------------------------------------------------------------

var profRegular = mux.Profile{Name: "regular", Variants: []int{mux.VariantLL}, LeadUnits: [2]int{60, 400}, MaxAudio: 1, ConstantLL: true, MultiAU: true, MoreAudioLed: true, ParamRate: 2}

// constantLeadTicks returns the constant distance between consecutive leading units (0 if not constant).
func constantLeadTicks(sc mux.Script) int64 {
	lead := sc.Config.LeadingTrack()
	spec := sc.Config.Tracks[lead]
	var prev int64
	var prevN int64 = 1
	var d int64 = -1
	first := true
	for _, op := range sc.Ops {
		if op.Track != lead || op.Kind == mux.KindParamOnly || op.Kind == mux.KindSEI {
			continue
		}
		n := int64(op.N)
		if n < 1 {
			n = 1
		}
		if !spec.IsVideo() && n != 1 && spec.Codec != "aac" {
			return 0
		}
		if !first {
			// a write of k access units advances the clock by k sample durations
			if (op.TS-prev)%prevN != 0 {
				return 0
			}
			step := (op.TS - prev) / prevN
			if d >= 0 && step != d {
				return 0
			}
			d = step
		}
		first = false
		prev = op.TS
		prevN = n
	}
	if d <= 0 {
		return 0
	}
	return d
}

var propC19 = core.Prop[e1Scenario]{
	ID: "C19",
	Rule: "Low-Latency scripts with a constant leading sample duration (video 750..90000 ticks incl. 1001-based rates, AAC 1024 samples at all standard rates, Opus frame sizes) x PartMinDuration 50 ms..2 s (5 ms grid and off grid) x SegmentMinDuration x key-frame spacing, video-led and audio-only, optional parameter change; " +
		"oracle on every playlist: non-final parts all equal, within 85..100% of PART-TARGET, >= PartMinDuration, < 2*max(PartMinDuration, sample)+sample, PART-TARGET stable; non-trivial = >= 3 non-final parts observed",
	Draw: func(t *rapid.T) e1Scenario {
		return e1Scenario{Script: mux.DrawScript(t, profRegular), ObserveEvery: 3}
	},
	Exec: func(sc e1Scenario) core.Outcome {
		var o core.Outcome
		ticks := constantLeadTicks(sc.Script)
		if ticks == 0 {
			o.Skip = true
			return o
		}
		r := mux.RunE1(sc.Script, mux.E1Opts{ObserveEvery: sc.ObserveEvery, TmpBase: os.Getenv("VERIF_TMP"), Regularity: true, SampleTicks: ticks, NoDecode: true, Focus: "C19"})
		o.Labels = scriptLabels(sc.Script, r)
		if r.Skip != "" {
			o.Skip = true
			return o
		}
		o.NonTrivial = r.NonFinalParts >= 3
		for p := range r.Foreign {
			o.Labels = append(o.Labels, "other-property-violated:"+p)
		}
		if m := r.Has("C19"); m != "" {
			o.Violation = m
		}
		return o
	},
}

func TestC19(t *testing.T) { core.Run(t, propC19) }
