package props

import (
	"fmt"
	"testing"
	"time"

	"github.com/bluenviron/gohlslib/v2/pkg/playlist"

	"verifharness/core"
)

// TestC14Masks enumerates, per tag, every presence/absence combination of its optional
// attributes (and, at playlist level, of the optional tags) with fixed values, and runs the full
// round-trip oracle of TestC14 on each. The random generator of TestC14 reaches these
// combinations only with some probability; this enumeration makes the "each optional field
// independently present or absent" part of the property deterministic.

func ptr[T any](v T) *T { return &v }

func fullPart(mask int) *playlist.MediaPart {
	p := &playlist.MediaPart{Duration: 500 * time.Millisecond, URI: "part1.mp4"}
	if mask&1 != 0 {
		p.Independent = true
	}
	if mask&2 != 0 {
		p.Gap = true
	}
	switch (mask >> 2) % 3 {
	case 1:
		p.ByteRangeLength = ptr(uint64(1234))
	case 2:
		p.ByteRangeLength = ptr(uint64(1234))
		p.ByteRangeStart = ptr(uint64(77))
	}
	return p
}

const partMasks = 12

func fullKey(mask int) *playlist.MediaKey {
	methods := []playlist.MediaKeyMethod{playlist.MediaKeyMethodAES128, playlist.MediaKeyMethodSampleAES}
	k := &playlist.MediaKey{Method: methods[mask&1], URI: "key.bin"}
	if mask&2 != 0 {
		k.IV = "0x0123456789ABCDEF0123456789ABCDEF"
	}
	if mask&4 != 0 {
		k.KeyFormat = "identity"
	}
	if mask&8 != 0 {
		k.KeyFormatVersions = "1/2/5"
	}
	return k
}

const keyMasks = 16

func maskSegment(mask int, idx int) *playlist.MediaSegment {
	s := &playlist.MediaSegment{Duration: 2 * time.Second, URI: fmt.Sprintf("seg%d.mp4", idx)}
	if mask&1 != 0 {
		s.Discontinuity = true
	}
	if mask&2 != 0 {
		s.Gap = true
	}
	if mask&4 != 0 {
		s.DateTime = ptr(time.Date(2024, 3, 5, 10, 20, 30, 450e6, time.UTC))
	}
	if mask&8 != 0 {
		s.Bitrate = ptr(1500)
	}
	if mask&16 != 0 {
		s.Title = "a title"
	}
	if mask&32 != 0 {
		s.Parts = []*playlist.MediaPart{fullPart(0), fullPart(7)}
	}
	switch (mask >> 6) % 3 {
	case 1:
		s.ByteRangeLength = ptr(uint64(5000))
	case 2:
		s.ByteRangeLength = ptr(uint64(5000))
		s.ByteRangeStart = ptr(uint64(300))
	}
	return s
}

const segMasks = 64 * 3

func maskMedia(mask int) *playlist.Media {
	m := &playlist.Media{
		Version:        9,
		TargetDuration: 2,
		MediaSequence:  17,
		Segments:       []*playlist.MediaSegment{maskSegment(0, 0), maskSegment(4, 1)},
	}
	bit := func(i int) bool { return mask&(1<<i) != 0 }
	if bit(0) {
		m.IndependentSegments = true
	}
	if bit(1) {
		m.Start = &playlist.MultivariantStart{TimeOffset: -3500 * time.Millisecond}
	}
	if bit(2) {
		m.AllowCache = ptr(false)
	}
	if bit(3) {
		m.ServerControl = &playlist.MediaServerControl{CanBlockReload: true, PartHoldBack: ptr(1500 * time.Millisecond)}
	}
	if bit(4) {
		m.PartInf = &playlist.MediaPartInf{PartTarget: 500 * time.Millisecond}
	}
	if bit(5) {
		m.DiscontinuitySequence = ptr(3)
	}
	if bit(6) {
		m.PlaylistType = ptr(playlist.MediaPlaylistType(playlist.MediaPlaylistTypeEvent))
	}
	if bit(7) {
		m.Map = &playlist.MediaMap{URI: "init.mp4"}
	}
	if bit(8) {
		m.Skip = &playlist.MediaSkip{SkippedSegments: 4}
	}
	if bit(9) {
		m.Parts = []*playlist.MediaPart{fullPart(1)}
	}
	if bit(10) {
		m.PreloadHint = &playlist.MediaPreloadHint{URI: "part9.mp4"}
	}
	if bit(11) {
		m.Endlist = true
	}
	return m
}

const mediaMasks = 1 << 12

func maskVariant(mask int) *playlist.MultivariantVariant {
	v := &playlist.MultivariantVariant{Bandwidth: 800000, Codecs: []string{"avc1.640028", "mp4a.40.2"}, URI: "stream.m3u8"}
	bit := func(i int) bool { return mask&(1<<i) != 0 }
	if bit(0) {
		v.AverageBandwidth = ptr(700000)
	}
	if bit(1) {
		v.Resolution = "1920x1080"
	}
	if bit(2) {
		v.FrameRate = ptr(29.97)
	}
	if bit(3) {
		v.Video = "vid"
	}
	if bit(4) {
		v.Audio = "aud"
	}
	if bit(5) {
		v.Subtitles = "subs"
	}
	if bit(6) {
		v.ClosedCaptions = "cc"
	}
	return v
}

const variantMasks = 1 << 7

func maskRendition(typ playlist.MultivariantRenditionType, mask int) *playlist.MultivariantRendition {
	r := &playlist.MultivariantRendition{Type: typ, GroupID: "grp", Name: "nm"}
	bit := func(i int) bool { return mask&(1<<i) != 0 }
	if bit(0) {
		r.Language = "en"
	}
	if bit(1) {
		r.Autoselect = true
	}
	if bit(2) {
		r.Default = true
	}
	if bit(3) {
		r.Forced = true
	}
	switch typ {
	case playlist.MultivariantRenditionTypeClosedCaptions:
		r.InStreamID = ptr("CC1")
		if bit(4) {
			r.InStreamID = ptr("SERVICE12")
		}
	case playlist.MultivariantRenditionTypeSubtitles:
		r.URI = ptr("subs.m3u8")
	default:
		if bit(4) {
			r.URI = ptr("rend.m3u8")
		}
	}
	if typ == playlist.MultivariantRenditionTypeAudio && bit(5) {
		r.Channels = ptr("2")
	}
	return r
}

func TestC14Masks(t *testing.T) {
	defer core.FlushStats()
	n := 0
	run := func(class string, mask int, sc plScenario) {
		sc.Choices = []int{mask, mask / 3, mask / 7, 1, 2, 3, 5, 8}
		out := execRoundTrip(sc)
		out.Labels = append(out.Labels, "masks:"+class)
		out.NonTrivial = true
		core.Record("C14", fmt.Sprintf("mask-%s-%d", class, mask), out, sc)
		n++
		if out.Violation != "" {
			core.WriteFail("C14", "", sc, out.Violation)
			t.Fatalf("VIOLATION C14: %s mask %d: %s", class, mask, out.Violation)
		}
	}
	media := func(m *playlist.Media) plScenario { return plScenario{Kind: "media", Media: m} }
	multi := func(m *playlist.Multivariant) plScenario { return plScenario{Kind: "multi", Multi: m} }

	for mask := 0; mask < mediaMasks; mask++ {
		run("media-tags", mask, media(maskMedia(mask)))
	}
	for mask := 0; mask < segMasks; mask++ {
		m := maskMedia(0)
		m.Segments = []*playlist.MediaSegment{maskSegment(mask, 0), maskSegment(0, 1), maskSegment(mask, 2)}
		run("segment", mask, media(m))
	}
	for mask := 0; mask < partMasks; mask++ {
		for where := 0; where < 2; where++ {
			m := maskMedia(1 << 4)
			if where == 0 {
				m.Segments[1].Parts = []*playlist.MediaPart{fullPart(mask), fullPart(0)}
			} else {
				m.Parts = []*playlist.MediaPart{fullPart(0), fullPart(mask)}
			}
			run("part", mask*2+where, media(m))
		}
	}
	// server control: every subset of its three attributes, the empty one included (none of them
	// is documented as required)
	for mask := 0; mask < 8; mask++ {
		m := maskMedia(0)
		sc := &playlist.MediaServerControl{}
		if mask&1 != 0 {
			sc.CanBlockReload = true
		}
		if mask&2 != 0 {
			sc.PartHoldBack = ptr(1500 * time.Millisecond)
		}
		if mask&4 != 0 {
			sc.CanSkipUntil = ptr(12 * time.Second)
		}
		m.ServerControl = sc
		run("server-control", mask, media(m))
	}
	// map byte range, preload hint byte range
	for mask := 0; mask < 3; mask++ {
		m := maskMedia(0)
		m.Map = &playlist.MediaMap{URI: "init.mp4"}
		if mask >= 1 {
			m.Map.ByteRangeLength = ptr(uint64(720))
		}
		if mask == 2 {
			m.Map.ByteRangeStart = ptr(uint64(10))
		}
		run("map", mask, media(m))
	}
	for mask := 0; mask < 4; mask++ {
		m := maskMedia(1 << 4)
		h := &playlist.MediaPreloadHint{URI: "next.mp4"}
		if mask&1 != 0 {
			h.ByteRangeStart = 4096
		}
		if mask&2 != 0 {
			h.ByteRangeLength = ptr(uint64(999))
		}
		m.PreloadHint = h
		run("hint", mask, media(m))
	}
	// keys: every attribute subset, on the first segment, changing to every other subset on the
	// second one, and METHOD=NONE after a key
	for a := 0; a < keyMasks; a++ {
		for b := 0; b < keyMasks; b++ {
			m := maskMedia(0)
			m.Segments = []*playlist.MediaSegment{maskSegment(0, 0), maskSegment(0, 1), maskSegment(0, 2)}
			ka, kb := fullKey(a), fullKey(b)
			m.Segments[0].Key = ka
			m.Segments[1].Key = ka
			if a == b {
				m.Segments[2].Key = &playlist.MediaKey{Method: playlist.MediaKeyMethodNone}
			} else {
				m.Segments[1].Key = kb
				m.Segments[2].Key = kb
			}
			run("key", a*keyMasks+b, media(m))
		}
	}
	// playlist types, start variants
	for mask := 0; mask < 4; mask++ {
		m := maskMedia(0)
		if mask&1 != 0 {
			m.PlaylistType = ptr(playlist.MediaPlaylistType(playlist.MediaPlaylistTypeVOD))
		} else {
			m.PlaylistType = ptr(playlist.MediaPlaylistType(playlist.MediaPlaylistTypeEvent))
		}
		m.Start = &playlist.MultivariantStart{TimeOffset: 2 * time.Second}
		run("type-start", mask, media(m))
	}

	for mask := 0; mask < variantMasks; mask++ {
		m := &playlist.Multivariant{Version: 9, Variants: []*playlist.MultivariantVariant{maskVariant(mask), maskVariant(0)}}
		run("variant", mask, multi(m))
	}
	for mask := 0; mask < 8; mask++ {
		m := &playlist.Multivariant{Version: 9, Variants: []*playlist.MultivariantVariant{maskVariant(0)}}
		if mask&1 != 0 {
			m.IndependentSegments = true
		}
		if mask&2 != 0 {
			m.Start = &playlist.MultivariantStart{TimeOffset: 7 * time.Second}
		}
		run("multi-tags", mask, multi(m))
	}
	for ti, typ := range []playlist.MultivariantRenditionType{
		playlist.MultivariantRenditionTypeAudio, playlist.MultivariantRenditionTypeVideo,
		playlist.MultivariantRenditionTypeSubtitles, playlist.MultivariantRenditionTypeClosedCaptions,
	} {
		for mask := 0; mask < 64; mask++ {
			m := &playlist.Multivariant{Version: 9, Variants: []*playlist.MultivariantVariant{maskVariant(16)},
				Renditions: []*playlist.MultivariantRendition{maskRendition(typ, mask), maskRendition(typ, 0)}}
			m.Renditions[1].Name = "other"
			run("rendition", ti*64+mask, multi(m))
		}
	}
	core.AddExtra("C14", "presence_masks_enumerated", n)
}
