package props

import (
	"os"
	"testing"

	"verifharness/core"
)

// replayers maps a property id to the function that re-executes a saved scenario of that
// property without rapid (same executor, same oracle).
func init() {
	for k, v := range extraReplayers {
		replayers[k] = v
	}
}

var replayers = map[string]func(t *testing.T, path string){
	"C06":         func(t *testing.T, p string) { core.Replay(t, propC06, p) },
	"C07":         func(t *testing.T, p string) { core.Replay(t, propC07, p) },
	"C01":         func(t *testing.T, p string) { core.Replay(t, propC01, p) },
	"C02":         func(t *testing.T, p string) { core.Replay(t, propC02, p) },
	"C03":         func(t *testing.T, p string) { core.Replay(t, propC03, p) },
	"C04":         func(t *testing.T, p string) { core.Replay(t, propC04, p) },
	"C05":         func(t *testing.T, p string) { core.Replay(t, propC05, p) },
	"C16":         func(t *testing.T, p string) { core.Replay(t, propC16, p) },
	"C18":         func(t *testing.T, p string) { core.Replay(t, propC18, p) },
	"C19":         func(t *testing.T, p string) { core.Replay(t, propC19, p) },
	"C14":         func(t *testing.T, p string) { core.Replay(t, propC14, p) },
	"C15/decoder": func(t *testing.T, p string) { core.Replay(t, propC15Dec, p) },
	"C15/grammar": func(t *testing.T, p string) { core.Replay(t, propC15Grammar, p) },
	"C17":         func(t *testing.T, p string) { core.Replay(t, propC17, p) },
}

// TestReplay re-executes $VERIF_REPLAY.
func TestReplay(t *testing.T) {
	path := os.Getenv("VERIF_REPLAY")
	if path == "" {
		t.Skip("VERIF_REPLAY not set")
	}
	id := core.ReplayProperty(path)
	f, ok := replayers[id]
	if !ok {
		t.Fatalf("no replayer for property %q", id)
	}
	f(t, path)
}
