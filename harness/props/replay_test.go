package props

import (
	"os"
	"testing"

	"verifharness/core"
)

// replayers maps "<property>[/<sub>]" to the function that re-executes a saved scenario of that
// property without rapid (same executor, same oracle).
var replayers = map[string]func(t *testing.T, path string){}

func reg[S any](p core.Prop[S]) {
	key := p.ID
	if p.Sub != "" {
		key += "/" + p.Sub
	}
	replayers[key] = func(t *testing.T, path string) { core.Replay(t, p, path) }
}

func init() {
	reg(propC01)
	reg(propC02)
	reg(propC03)
	reg(propC04)
	reg(propC05)
	reg(propC06)
	reg(propC07)
	reg(propC08)
	reg(propC09)
	reg(propC10)
	reg(propC11)
	reg(propC12)
	reg(propC13)
	reg(propC14)
	reg(propC15Dec)
	reg(propC15Grammar)
	reg(propC15Muxer)
	reg(propC15LL)
	reg(propC16)
	reg(propC17)
	reg(propC18)
	reg(propC19)
	reg(propC20E2E)
	for k, v := range extraReplayers {
		replayers[k] = v
	}
}

// TestReplay re-executes $VERIF_REPLAY.
func TestReplay(t *testing.T) {
	path := os.Getenv("VERIF_REPLAY")
	if path == "" {
		t.Skip("VERIF_REPLAY not set")
	}
	id := core.ReplayProperty(path)
	f, ok := replayers[id]
	if !ok {
		t.Fatalf("no replayer for property %q", id)
	}
	f(t, path)
}
