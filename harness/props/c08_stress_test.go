package props

import (
	"fmt"
	"os"
	"testing"

	"pgregory.net/rapid"

	"verifharness/core"
	"verifharness/mux"
)

// ---- C08: one writer + concurrent HTTP readers (build with -race) ----

type c08Scenario struct {
	Script mux.Script     `json:"script"`
	Plan   mux.StressPlan `json:"plan"`
}

var profStress = mux.Profile{Name: "stress", Variants: []int{mux.VariantLL, mux.VariantLL, mux.VariantFMP4, mux.VariantMPEGTS}, LeadUnits: [2]int{150, 500}, MaxAudio: 2, ParamRate: 8, AllowDisk: true, SegCountMax: 8}

func drawC08(t *rapid.T) c08Scenario {
	sc := c08Scenario{Script: mux.DrawScript(t, profStress)}
	// short segments so that rotations, finalizations and expirations happen often
	sc.Script.Config.SegmentMinDuration = rapid.SampledFrom([]int64{20e6, 50e6, 100e6, 200e6}).Draw(t, "segMinStress")
	if sc.Script.Config.Variant == mux.VariantLL {
		sc.Script.Config.PartMinDuration = rapid.SampledFrom([]int64{10e6, 20e6, 40e6}).Draw(t, "partMinStress")
	}
	n := rapid.IntRange(2, 12).Draw(t, "nreaders")
	for i := 0; i < n; i++ {
		sc.Plan.Readers = append(sc.Plan.Readers, mux.ReaderSpec{
			Kind:   rapid.SampledFrom([]string{"mix", "mix", "plain", "index", "blocking", "delta", "init", "newest-seg", "random-part", "hint", "unknown", "expired"}).Draw(t, "rkind"),
			Stream: rapid.IntRange(0, 3).Draw(t, "rstream"),
		})
	}
	sc.Plan.PaceMicros = rapid.SampledFrom([]int{0, 0, 20, 100, 200}).Draw(t, "pace")
	sc.Plan.CloseAt = -1
	if rapid.IntRange(0, 2).Draw(t, "closeMid") == 0 {
		sc.Plan.CloseAt = rapid.IntRange(len(sc.Script.Ops)/3, len(sc.Script.Ops)-1).Draw(t, "closeAt")
	}
	sc.Plan.YieldServe = rapid.Bool().Draw(t, "yieldServe")
	return sc
}

func execC08(sc c08Scenario) core.Outcome {
	var o core.Outcome
	r := mux.RunStress(sc.Script, sc.Plan, os.Getenv("VERIF_TMP"))
	if r.Skip != "" {
		o.Skip = true
		return o
	}
	o.Labels = scriptLabels(sc.Script, nil)
	o.Labels = append(o.Labels, fmt.Sprintf("readers=%d", len(sc.Plan.Readers)))
	for k, n := range r.ByKind {
		if n > 0 {
			o.Labels = append(o.Labels, "reader:"+k)
		}
	}
	o.NonTrivial = r.Overlapped >= 100
	core.AddExtra("C08", "responses", r.Responses)
	core.AddExtra("C08", "responses_overlapping_a_write", r.Overlapped)
	for _, v := range r.Violations {
		if v.Prop == "C08" {
			o.Violation = v.Msg
			break
		}
		o.Labels = append(o.Labels, "other-property-violated:"+v.Prop)
	}
	return o
}

var propC08 = core.Prop[c08Scenario]{
	ID:       "C08",
	CrashLog: true,
	Rule: "stress plans: a script of 150-500 leading units (all variants, RAM/disk, frequent parameter changes, short segments and parts) written by one goroutine while 2-12 reader goroutines, each with a URL policy (multivariant, media playlist plain / blocking for the next part / delta, init, newest segment, random listed part, preload hint, unknown, expired, or a mix), call Handle in a loop; writer pacing 0-200 us; Close at the end or in the middle while readers run; optional sleeps at the serve yield point; binary built with -race; " +
		"oracle: no race report, no panic, every playlist response is a consistent snapshot (grammar + single-response invariants), each reader's responses are monotone, a URI listed before and after a fetch was fetchable with stable bytes, blocking responses contain their (M,P), hint bytes == part bytes; non-trivial = at least 100 responses overlapped a write",
	Draw: drawC08,
	Exec: execC08,
}

func TestC08(t *testing.T) { core.Run(t, propC08) }
