package props

import (
	"fmt"
	"strconv"
	"strings"
	"time"

	"github.com/bluenviron/gohlslib/v2/pkg/playlist"

	"verifharness/m3u8x"
)

// crossCheckAST reads the text with the harness' own reader (m3u8x) and compares what it sees
// with the value that was marshaled. Returns "" when they agree.

func nsClose(a time.Duration, b int64) bool {
	d := int64(a) - b
	return d >= -10_000 && d <= 10_000
}

func i64eq(p *int64, v int) bool { return p != nil && *p == int64(v) }

func rangeEq(x *m3u8x.XRange, l, s *uint64) string {
	if (x == nil) != (l == nil) {
		return fmt.Sprintf("byte range presence: text %v, value %v", x != nil, l != nil)
	}
	if x == nil {
		return ""
	}
	if x.Length != *l {
		return fmt.Sprintf("byte range length: text %d, value %d", x.Length, *l)
	}
	if (x.Start == nil) != (s == nil) || (s != nil && *x.Start != *s) {
		return "byte range start differs"
	}
	return ""
}

func attrVal(attrs []m3u8x.Attr, n string) (string, bool) {
	a, ok := m3u8x.Get(attrs, n)
	return a.Val, ok
}

func partEq(x m3u8x.XPart, p *playlist.MediaPart) string {
	if !nsClose(p.Duration, x.DurationNS) {
		return fmt.Sprintf("part duration: text %s, value %v", x.DurText, p.Duration)
	}
	if x.URI != p.URI || x.Independent != p.Independent || x.Gap != p.Gap {
		return fmt.Sprintf("part fields: text {%q indep=%v gap=%v}, value {%q indep=%v gap=%v}", x.URI, x.Independent, x.Gap, p.URI, p.Independent, p.Gap)
	}
	return rangeEq(x.Range, p.ByteRangeLength, p.ByteRangeStart)
}

func crossCheckAST(sc plScenario, text string) string {
	if sc.Kind == "media" {
		return crossCheckMedia(sc.Media, text)
	}
	return crossCheckMulti(sc.Multi, text)
}

func crossCheckMedia(m *playlist.Media, text string) string {
	x, err := m3u8x.ParseMedia(text)
	if err != nil {
		return "independent reader cannot read the text: " + err.Error()
	}
	if !i64eq(x.Version, m.Version) {
		return "EXT-X-VERSION"
	}
	if x.Independent != m.IndependentSegments {
		return "EXT-X-INDEPENDENT-SEGMENTS"
	}
	if (x.StartOffsetNS != nil) != (m.Start != nil) {
		return fmt.Sprintf("EXT-X-START presence: text %v, value %v", x.StartOffsetNS != nil, m.Start != nil)
	}
	if m.Start != nil && !nsClose(m.Start.TimeOffset, *x.StartOffsetNS) {
		return "EXT-X-START TIME-OFFSET"
	}
	if (x.AllowCache != nil) != (m.AllowCache != nil) {
		return "EXT-X-ALLOW-CACHE presence"
	}
	if m.AllowCache != nil && (*x.AllowCache == "YES") != *m.AllowCache {
		return "EXT-X-ALLOW-CACHE value"
	}
	if !i64eq(x.Target, m.TargetDuration) {
		return "EXT-X-TARGETDURATION"
	}
	if x.HasServerCtl != (m.ServerControl != nil) {
		return "EXT-X-SERVER-CONTROL presence"
	}
	if sc := m.ServerControl; sc != nil {
		v, ok := attrVal(x.ServerControl, "CAN-BLOCK-RELOAD")
		if (ok && v == "YES") != sc.CanBlockReload {
			return "CAN-BLOCK-RELOAD"
		}
		for _, f := range []struct {
			n string
			p *time.Duration
		}{{"PART-HOLD-BACK", sc.PartHoldBack}, {"CAN-SKIP-UNTIL", sc.CanSkipUntil}} {
			v, ok := attrVal(x.ServerControl, f.n)
			if ok != (f.p != nil) {
				return fmt.Sprintf("%s presence: text %v, value %v", f.n, ok, f.p != nil)
			}
			if ok {
				ns, err := m3u8x.ParseDecimalNS(v)
				if err != nil || !nsClose(*f.p, ns) {
					return f.n + " value"
				}
			}
		}
	}
	if (x.PartTargetNS != nil) != (m.PartInf != nil) {
		return "EXT-X-PART-INF presence"
	}
	if m.PartInf != nil && !nsClose(m.PartInf.PartTarget, *x.PartTargetNS) {
		return "PART-TARGET"
	}
	if !i64eq(x.MediaSeq, m.MediaSequence) {
		return "EXT-X-MEDIA-SEQUENCE"
	}
	if (x.DiscSeq != nil) != (m.DiscontinuitySequence != nil) {
		return "EXT-X-DISCONTINUITY-SEQUENCE presence"
	}
	if m.DiscontinuitySequence != nil && *x.DiscSeq != int64(*m.DiscontinuitySequence) {
		return fmt.Sprintf("EXT-X-DISCONTINUITY-SEQUENCE: text %d, value %d", *x.DiscSeq, *m.DiscontinuitySequence)
	}
	if (x.Type != nil) != (m.PlaylistType != nil) || (m.PlaylistType != nil && *x.Type != string(*m.PlaylistType)) {
		return "EXT-X-PLAYLIST-TYPE"
	}
	if (x.MapURI != nil) != (m.Map != nil) {
		return "EXT-X-MAP presence"
	}
	if m.Map != nil {
		if *x.MapURI != m.Map.URI {
			return "EXT-X-MAP URI"
		}
		if d := rangeEq(x.MapRange, m.Map.ByteRangeLength, m.Map.ByteRangeStart); d != "" {
			return "EXT-X-MAP " + d
		}
	}
	if (x.Skip != nil) != (m.Skip != nil) || (m.Skip != nil && *x.Skip != int64(m.Skip.SkippedSegments)) {
		return "EXT-X-SKIP"
	}
	if len(x.Segments) != len(m.Segments) {
		return fmt.Sprintf("segment count: text %d, value %d", len(x.Segments), len(m.Segments))
	}
	for i, s := range m.Segments {
		xs := x.Segments[i]
		pre := fmt.Sprintf("segment %d: ", i)
		if !nsClose(s.Duration, xs.DurationNS) {
			return pre + fmt.Sprintf("EXTINF: text %s, value %v", xs.DurText, s.Duration)
		}
		if strings.TrimSpace(xs.Title) != s.Title {
			return pre + "title"
		}
		if xs.URI != s.URI {
			return pre + "URI"
		}
		if xs.Discontinuity != s.Discontinuity {
			return pre + "EXT-X-DISCONTINUITY"
		}
		if xs.Gap != s.Gap {
			return pre + "EXT-X-GAP"
		}
		if (xs.DateTime != nil) != (s.DateTime != nil) {
			return pre + "EXT-X-PROGRAM-DATE-TIME presence"
		}
		if s.DateTime != nil {
			d := s.DateTime.Sub(*xs.DateTime)
			if d <= -time.Millisecond || d >= time.Millisecond {
				return pre + fmt.Sprintf("EXT-X-PROGRAM-DATE-TIME: text %s, value %v", xs.DateTimeText, s.DateTime)
			}
		}
		if (xs.Bitrate != nil) != (s.Bitrate != nil) || (s.Bitrate != nil && *xs.Bitrate != int64(*s.Bitrate)) {
			return pre + "EXT-X-BITRATE"
		}
		if d := rangeEq(xs.Range, s.ByteRangeLength, s.ByteRangeStart); d != "" {
			return pre + "EXT-X-BYTERANGE " + d
		}
		if (xs.Key != nil) != (s.Key != nil) {
			return pre + "EXT-X-KEY presence"
		}
		if k := s.Key; k != nil {
			if v, _ := attrVal(xs.Key, "METHOD"); v != string(k.Method) {
				return pre + "EXT-X-KEY METHOD"
			}
			if k.Method != playlist.MediaKeyMethodNone {
				for _, f := range [][2]string{{"URI", k.URI}, {"IV", k.IV}, {"KEYFORMAT", k.KeyFormat}, {"KEYFORMATVERSIONS", k.KeyFormatVersions}} {
					v, ok := attrVal(xs.Key, f[0])
					if v != f[1] || (ok != (f[1] != "") && f[0] != "URI") {
						return pre + "EXT-X-KEY " + f[0]
					}
				}
			}
		}
		if len(xs.Parts) != len(s.Parts) {
			return pre + "part count"
		}
		for j, p := range s.Parts {
			if d := partEq(xs.Parts[j], p); d != "" {
				return pre + fmt.Sprintf("part %d: %s", j, d)
			}
		}
	}
	if len(x.Parts) != len(m.Parts) {
		return "trailing part count"
	}
	for j, p := range m.Parts {
		if d := partEq(x.Parts[j], p); d != "" {
			return fmt.Sprintf("trailing part %d: %s", j, d)
		}
	}
	if (x.Hint != nil) != (m.PreloadHint != nil) {
		return "EXT-X-PRELOAD-HINT presence"
	}
	if h := m.PreloadHint; h != nil {
		if x.Hint.Type != "PART" || x.Hint.URI != h.URI {
			return "EXT-X-PRELOAD-HINT TYPE/URI"
		}
		st := uint64(0)
		if x.Hint.Start != nil {
			st = *x.Hint.Start
		}
		if st != h.ByteRangeStart {
			return "EXT-X-PRELOAD-HINT BYTERANGE-START"
		}
		if (x.Hint.Length != nil) != (h.ByteRangeLength != nil) || (h.ByteRangeLength != nil && *x.Hint.Length != *h.ByteRangeLength) {
			return "EXT-X-PRELOAD-HINT BYTERANGE-LENGTH"
		}
	}
	if x.Endlist != m.Endlist {
		return "EXT-X-ENDLIST"
	}
	return ""
}

func crossCheckMulti(m *playlist.Multivariant, text string) string {
	x, err := m3u8x.ParseMulti(text)
	if err != nil {
		return "independent reader cannot read the text: " + err.Error()
	}
	if !i64eq(x.Version, m.Version) {
		return "EXT-X-VERSION"
	}
	if x.Independent != m.IndependentSegments {
		return "EXT-X-INDEPENDENT-SEGMENTS"
	}
	if (x.StartOffsetNS != nil) != (m.Start != nil) {
		return "EXT-X-START presence"
	}
	if m.Start != nil && !nsClose(m.Start.TimeOffset, *x.StartOffsetNS) {
		return "EXT-X-START TIME-OFFSET"
	}
	if len(x.Variants) != len(m.Variants) {
		return "variant count"
	}
	for i, v := range m.Variants {
		xv := x.Variants[i]
		pre := fmt.Sprintf("variant %d: ", i)
		if xv.URI != v.URI {
			return pre + "URI"
		}
		if s, _ := attrVal(xv.Attrs, "BANDWIDTH"); s != strconv.Itoa(v.Bandwidth) {
			return pre + "BANDWIDTH"
		}
		s, ok := attrVal(xv.Attrs, "AVERAGE-BANDWIDTH")
		if ok != (v.AverageBandwidth != nil) || (ok && s != strconv.Itoa(*v.AverageBandwidth)) {
			return pre + "AVERAGE-BANDWIDTH"
		}
		if s, _ := attrVal(xv.Attrs, "CODECS"); s != strings.Join(v.Codecs, ",") {
			return pre + "CODECS"
		}
		for _, f := range [][2]string{{"RESOLUTION", v.Resolution}, {"VIDEO", v.Video}, {"AUDIO", v.Audio}, {"SUBTITLES", v.Subtitles}, {"CLOSED-CAPTIONS", v.ClosedCaptions}} {
			s, ok := attrVal(xv.Attrs, f[0])
			if ok != (f[1] != "") || s != f[1] {
				return pre + f[0]
			}
		}
		s, ok = attrVal(xv.Attrs, "FRAME-RATE")
		if ok != (v.FrameRate != nil) {
			return pre + "FRAME-RATE presence"
		}
		if ok {
			f, err := strconv.ParseFloat(s, 64)
			if err != nil || f-*v.FrameRate > 0.00051 || *v.FrameRate-f > 0.00051 {
				return pre + "FRAME-RATE value"
			}
		}
	}
	if len(x.Renditions) != len(m.Renditions) {
		return "rendition count"
	}
	for i, r := range m.Renditions {
		xa := x.Renditions[i]
		pre := fmt.Sprintf("rendition %d: ", i)
		str := func(n, want string, present bool) string {
			s, ok := attrVal(xa, n)
			if ok != present || s != want {
				return pre + n
			}
			return ""
		}
		if d := str("TYPE", string(r.Type), true); d != "" {
			return d
		}
		if d := str("GROUP-ID", r.GroupID, true); d != "" {
			return d
		}
		if d := str("NAME", r.Name, r.Name != ""); d != "" {
			return d
		}
		if d := str("LANGUAGE", r.Language, r.Language != ""); d != "" {
			return d
		}
		for _, f := range []struct {
			n string
			v bool
		}{{"AUTOSELECT", r.Autoselect}, {"DEFAULT", r.Default}, {"FORCED", r.Forced}} {
			s, _ := attrVal(xa, f.n)
			if (s == "YES") != f.v {
				return pre + f.n
			}
		}
		for _, f := range []struct {
			n string
			p *string
		}{{"CHANNELS", r.Channels}, {"URI", r.URI}, {"INSTREAM-ID", r.InStreamID}} {
			s, ok := attrVal(xa, f.n)
			if ok != (f.p != nil) || (ok && s != *f.p) {
				return pre + f.n
			}
		}
	}
	return ""
}
