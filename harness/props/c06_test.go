package props

import (
	"fmt"
	"os"
	"sort"
	"testing"

	"pgregory.net/rapid"

	"verifharness/core"
	"verifharness/mux"
)

type c06Scenario struct {
	Script mux.Script    `json:"script"`
	Reqs   []mux.ReqSpec `json:"reqs"`
	Bursts map[int]int   `json:"bursts,omitempty"` // op index -> number of writes done back to back on one P
}

var profLLStep = mux.Profile{Name: "ll-step", Variants: []int{mux.VariantLL}, LeadUnits: [2]int{120, 420}, MaxAudio: 1, ConstantLL: true, ParamRate: 1, SegCountMax: 14}

func drawC06(t *rapid.T) c06Scenario {
	sc := c06Scenario{Script: mux.DrawScript(t, profLLStep)}
	n := len(sc.Script.Ops)
	nreq := rapid.IntRange(8, 30).Draw(t, "nreq")
	for i := 0; i < nreq; i++ {
		r := mux.ReqSpec{
			AtOp:   rapid.IntRange(n/12, n-1).Draw(t, "at"),
			Stream: rapid.IntRange(0, 3).Draw(t, "stream"),
			PK:     rapid.IntRange(0, 50).Draw(t, "pk"),
		}
		switch rapid.IntRange(0, 11).Draw(t, "kind") {
		case 0:
			r.Kind = "bad"
			r.Bad = rapid.SampledFrom([]string{"_HLS_part=0", "_HLS_part=3&a=1", "_HLS_msn=abc", "_HLS_msn=-1", "_HLS_msn=1.5", "_HLS_msn=99999999999999999999999", "_HLS_msn=10&_HLS_part=x", "_HLS_msn=10&_HLS_part=-2"}).Draw(t, "bad")
		case 1, 2:
			r.Kind = "hint"
		case 3:
			r.Kind = "oldhint"
		default:
			r.Kind = "reload"
			r.M = rapid.SampledFrom([]string{"expired", "first", "mid", "mid", "last", "last", "open", "open", "open", "next", "next", "far", "none"}).Draw(t, "m")
			r.P = rapid.SampledFrom([]string{"absent", "absent", "zero", "existing", "existing", "next", "next", "beyond", "past"}).Draw(t, "p")
			r.Skip = rapid.SampledFrom([]string{"", "", "", "YES", "v2", "NO"}).Draw(t, "skip")
			if rapid.IntRange(0, 4).Draw(t, "extra") == 0 {
				r.Extra = rapid.SampledFrom([]string{"a=1", "tok=xyz"}).Draw(t, "extraq")
			}
		}
		sc.Reqs = append(sc.Reqs, r)
	}
	sort.SliceStable(sc.Reqs, func(a, b int) bool { return sc.Reqs[a].AtOp < sc.Reqs[b].AtOp })
	nb := rapid.IntRange(0, 6).Draw(t, "nbursts")
	for i := 0; i < nb; i++ {
		if sc.Bursts == nil {
			sc.Bursts = map[int]int{}
		}
		sc.Bursts[rapid.IntRange(n/6, n-1).Draw(t, "burstAt")] = rapid.IntRange(2, 12).Draw(t, "burstLen")
	}
	// a hint request right before some of the bursts
	for at := range sc.Bursts {
		if at%2 == 0 && at > 0 {
			sc.Reqs = append(sc.Reqs, mux.ReqSpec{AtOp: at - 1, Stream: at % 3, Kind: "hint"})
		}
	}
	sort.SliceStable(sc.Reqs, func(a, b int) bool { return sc.Reqs[a].AtOp < sc.Reqs[b].AtOp })
	return sc
}

func execC06(sc c06Scenario) core.Outcome {
	var o core.Outcome
	r := mux.RunC06(sc.Script, sc.Reqs, sc.Bursts, os.Getenv("VERIF_TMP"), func(class string) bool { return false })
	if r.Skip != "" {
		o.Skip = true
		return o
	}
	o.Excluded = r.Excluded
	o.NonTrivial = r.Blocked > 0 || r.DeltaSkips > 0
	for c, n := range r.Classes {
		if n > 0 {
			o.Labels = append(o.Labels, c)
		}
	}
	sort.Strings(o.Labels)
	if r.Blocked > 0 {
		o.Labels = append(o.Labels, "blocked-then-released")
	}
	if r.DeltaSkips > 0 {
		o.Labels = append(o.Labels, "delta-with-skips")
	}
	if r.Bursts > 0 {
		o.Labels = append(o.Labels, "write-burst")
	}
	for _, v := range r.Violations {
		if v.Prop != "C06" {
			o.Labels = append(o.Labels, "other-property-violated:"+v.Prop)
		}
	}
	if m := r.Has("C06"); m != "" {
		o.Violation = m
	}
	_ = fmt.Sprint
	return o
}

var propC06 = core.Prop[c06Scenario]{
	ID: "C06",
	Rule: "Low-Latency scripts (one unit per write) with 8-30 tracked requests issued at drawn steps: blocking reloads with (M,P) drawn relative to the playlist state at issue time (expired, first, listed, last complete, open, next, far x absent/zero/existing/next/beyond/past-the-end), _HLS_skip=YES|v2|NO, extra query parameters, malformed directives, preload-hint GETs; " +
		"the writer advances only when every request has finished or is observed blocked (goroutine state); oracle: never answered before (M,P) is published, answered at the first state where it is, body == plain playlist of that state (delta: first SKIPPED-SEGMENTS segments and MAP replaced by EXT-X-SKIP), 400 exactly when unsatisfiable, hint body == part bytes; non-trivial = a request blocked and was later released, or a delta with SKIPPED-SEGMENTS > 0",
	Draw: drawC06,
	Exec: execC06,
}

func TestC06(t *testing.T) { core.Run(t, propC06) }

// C15, Low-Latency responses: blocking-reload and delta-update responses of a muxer parse under
// the strict grammar (the plain ones are covered by TestC15Muxer).
var propC15LL = core.Prop[c06Scenario]{
	ID:  "C15",
	Sub: "muxer-ll",
	Rule: "muxer half, Low-Latency: the scenarios of C06; every plain, blocking-reload and delta-update playlist response is fed to harness/m3u8x.Strict; " +
		"non-trivial = a delta response with SKIPPED-SEGMENTS > 0 or a released blocking response was among them",
	Draw: drawC06,
	Exec: func(sc c06Scenario) core.Outcome {
		var o core.Outcome
		r := mux.RunC06(sc.Script, sc.Reqs, sc.Bursts, os.Getenv("VERIF_TMP"), func(class string) bool { return false })
		if r.Skip != "" {
			o.Skip = true
			return o
		}
		o.NonTrivial = r.GrammarChecked > 0 && (r.Blocked > 0 || r.DeltaSkips > 0)
		if r.DeltaSkips > 0 {
			o.Labels = append(o.Labels, "muxer-ll:delta-with-skips")
		}
		if r.Blocked > 0 {
			o.Labels = append(o.Labels, "muxer-ll:blocking-response")
		}
		for _, v := range r.Violations {
			if v.Prop != "C15" {
				o.Labels = append(o.Labels, "other-property-violated:"+v.Prop)
			}
		}
		if m := r.Has("C15"); m != "" {
			o.Violation = m
		}
		return o
	},
}

func TestC15LL(t *testing.T) { core.Run(t, propC15LL) }
