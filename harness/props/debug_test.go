package props

import (
	"encoding/json"
	"fmt"
	"os"
	"testing"

	"verifharness/mux"
)

// TestDebugE1 dumps what the muxer serves for the script in $VERIF_REPLAY (development aid).
func TestDebugE1(t *testing.T) {
	path := os.Getenv("VERIF_REPLAY")
	if path == "" {
		t.Skip()
	}
	b, _ := os.ReadFile(path)
	var rf struct {
		Scenario e1Scenario `json:"scenario"`
	}
	if err := json.Unmarshal(b, &rf); err != nil {
		t.Fatal(err)
	}
	sc := rf.Scenario
	d, err := mux.NewDriver(sc.Script.Config, os.Getenv("VERIF_TMP"))
	if err != nil {
		t.Fatal(err)
	}
	defer d.Close()
	m := mux.NewModel(sc.Script.Config)
	for i, op := range sc.Script.Ops {
		st := m.Step(i, op)
		err := d.Write(i, op)
		fmt.Printf("op %d %+v -> model %+v err %v\n", i, op, st, err)
		if st.Cut {
			for _, s := range sc.Script.Config.Streams() {
				r := d.Get(s + "_stream.m3u8")
				fmt.Printf("--- %s status %d\n%s\n", s, r.Status, r.Body)
			}
		}
	}
}

func TestDebugSeg(t *testing.T) {
	path := os.Getenv("VERIF_REPLAY")
	if path == "" {
		t.Skip()
	}
	b, _ := os.ReadFile(path)
	var rf struct {
		Scenario e1Scenario `json:"scenario"`
	}
	json.Unmarshal(b, &rf)
	sc := rf.Scenario
	d, _ := mux.NewDriver(sc.Script.Config, os.Getenv("VERIF_TMP"))
	defer d.Close()
	for i, op := range sc.Script.Ops {
		d.Write(i, op)
		if i == 24 {
			r := d.Get("main_stream.m3u8")
			fmt.Printf("%s\n", r.Body)
			for k := 0; k < 5; k++ {
				// find prefix
			}
		}
	}
	for _, p := range d.M.VerifPaths() {
		r := d.GetDirect(p)
		fmt.Println(p, r.Status, len(r.Body))
		if len(r.Body) > 0 && len(r.Body) < 2000 && r.Body[0] == 0x47 {
			info, units, err := mux.DecodeTS(r.Body)
			fmt.Printf("   %+v %d units err=%v\n", info, len(units), err)
			for k := 0; k+188 <= len(r.Body); k += 188 {
				fmt.Printf("   pkt pid=%d pusi=%v % x\n", (int(r.Body[k+1]&0x1f)<<8)|int(r.Body[k+2]), r.Body[k+1]&0x40 != 0, r.Body[k:k+12])
			}
		}
	}
}
