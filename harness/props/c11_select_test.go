package props

import (
	"errors"
	"fmt"
	"net/url"
	"sort"
	"strings"
	"testing"
	"time"

	gohlslib "github.com/bluenviron/gohlslib/v2"
	"pgregory.net/rapid"

	"verifharness/cli"
	"verifharness/core"
)

// ---- C11: the client fetches segments consecutively, exactly once, from the right start ----

type c11Snap struct {
	First   int  `json:"first"` // index of the first listed segment
	N       int  `json:"n"`     // listed segments
	Endlist bool `json:"endlist"`
	Hint    int  `json:"hint"` // Low-Latency: index of the hinted part (-1: no hint)
}

type c11Stream struct {
	Snaps []c11Snap `json:"snaps"`
}

type c11Scenario struct {
	Container    string      `json:"container"`
	Total        int         `json:"total"`
	Type         string      `json:"type"`                    // "" | VOD | EVENT
	URIStyle     string      `json:"uri_style"`               // rel | subdir | up | abs | query
	Range        string      `json:"range"`                   // none | explicit | nostart | continued | mixed
	BigOffset    bool        `json:"big_offset,omitempty"`    // byte ranges lie beyond 4 GiB of their resource
	EndlistEarly bool        `json:"endlist_early,omitempty"` // EXT-X-ENDLIST is written before the last segment entry, not at the end
	DiscSeq      bool        `json:"disc_seq,omitempty"`      // playlists carry EXT-X-DISCONTINUITY-SEQUENCE (unrelated to the media sequence)
	PLQuery      bool        `json:"pl_query,omitempty"`      // playlist URLs carry a query string (token)
	RangeMask    int         `json:"range_mask,omitempty"`    // mixed: bit (segment index % 16) set = that sub-range is written without offset
	MSNBase      int         `json:"msn_base"`
	Multi        bool        `json:"multi"`
	LL           bool        `json:"ll"`
	SkipUntil    bool        `json:"skip_until"`
	SubDirs      bool        `json:"sub_dirs"` // multivariant: variant and rendition playlists live in sub-directories
	Streams      []c11Stream `json:"streams"`  // [0] = leading
}

func drawHistory(t *rapid.T, total int, ll bool, label string) c11Stream {
	var st c11Stream
	first := rapid.IntRange(0, 2).Draw(t, label+"first0")
	n := rapid.IntRange(1, 10).Draw(t, label+"n0")
	if rapid.IntRange(0, 9).Draw(t, label+"short") != 0 && n < 3 {
		n = 3
	}
	if first+n > total {
		n = total - first
	}
	polls := rapid.IntRange(1, 10).Draw(t, label+"polls")
	endAt := -1
	if !ll && rapid.IntRange(0, 2).Draw(t, label+"willEnd") != 0 {
		endAt = rapid.IntRange(0, polls-1).Draw(t, label+"endAt")
	}
	for k := 0; k < polls; k++ {
		sn := c11Snap{First: first, N: n, Hint: -1}
		if ll {
			sn.Hint = first + n // the part after the last listed segment
			if sn.Hint >= total {
				sn.Hint = -1
			}
		}
		if endAt >= 0 && k >= endAt {
			sn.Endlist = true
		}
		st.Snaps = append(st.Snaps, sn)
		if sn.Endlist {
			break
		}
		// evolve: the window advances by 0..k segments, its size may change
		adv := rapid.SampledFrom([]int{1, 1, 1, 1, 2, 0, 3, 6}).Draw(t, label+"adv")
		grow := rapid.SampledFrom([]int{0, 0, 0, 1, -1, 2}).Draw(t, label+"grow")
		if rapid.IntRange(0, 7).Draw(t, label+"burst") == 0 {
			// the server publishes many segments at once and keeps them all listed
			adv = rapid.IntRange(5, 8).Draw(t, label+"burstAdv")
			grow = adv
		}
		last := first + n - 1 + adv
		n += grow
		if n < 1 {
			n = 1
		}
		if n > 10 {
			n = 10
		}
		if last >= total {
			last = total - 1
		}
		first = last - n + 1
		if first < st.Snaps[len(st.Snaps)-1].First {
			first = st.Snaps[len(st.Snaps)-1].First
			n = last - first + 1
		}
		if n < 1 {
			n = 1
		}
	}
	if ll {
		// Low-Latency polling is not throttled: the history must end (hint disappears)
		lastSn := st.Snaps[len(st.Snaps)-1]
		lastSn.Hint = -1
		st.Snaps = append(st.Snaps, lastSn)
	}
	return st
}

func drawC11(t *rapid.T) c11Scenario {
	var sc c11Scenario
	sc.Container = rapid.SampledFrom([]string{"fmp4", "mpegts", "fmp4"}).Draw(t, "container")
	sc.Total = rapid.IntRange(8, 24).Draw(t, "total")
	sc.Type = rapid.SampledFrom([]string{"", "", "VOD", "EVENT"}).Draw(t, "type")
	sc.URIStyle = rapid.SampledFrom([]string{"rel", "rel", "subdir", "up", "abs", "query", "netpath"}).Draw(t, "uristyle")
	sc.Range = rapid.SampledFrom([]string{"none", "none", "explicit", "nostart", "continued", "mixed"}).Draw(t, "range")
	sc.PLQuery = rapid.IntRange(0, 3).Draw(t, "plQuery") == 0
	sc.DiscSeq = rapid.IntRange(0, 3).Draw(t, "discSeq") == 0
	sc.EndlistEarly = rapid.IntRange(0, 2).Draw(t, "endlistEarly") == 0
	if sc.Range == "explicit" || sc.Range == "continued" || sc.Range == "mixed" {
		sc.BigOffset = rapid.IntRange(0, 2).Draw(t, "bigOffset") == 0
	}
	if sc.Range == "mixed" {
		sc.RangeMask = rapid.IntRange(1, 1<<16-1).Draw(t, "rangeMask")
	}
	sc.MSNBase = rapid.SampledFrom([]int{0, 0, 1, 100, 2147483000}).Draw(t, "msnbase")
	sc.LL = sc.Container == "fmp4" && rapid.IntRange(0, 4).Draw(t, "ll") == 0
	if sc.LL {
		sc.SkipUntil = rapid.Bool().Draw(t, "skipuntil")
		sc.Range = "none"
	}
	sc.Multi = sc.Container == "fmp4" && !sc.LL && rapid.IntRange(0, 2).Draw(t, "multi") == 0
	sc.SubDirs = sc.Multi && rapid.Bool().Draw(t, "subdirs")
	sc.Streams = append(sc.Streams, drawHistory(t, sc.Total, sc.LL, "L"))
	if sc.Multi {
		nr := rapid.IntRange(1, 2).Draw(t, "nrend")
		for i := 0; i < nr; i++ {
			sc.Streams = append(sc.Streams, drawHistory(t, sc.Total, false, fmt.Sprintf("R%d", i)))
		}
	}
	return sc
}

// expected request of the model
type c11Req struct {
	url string
	rng string
}

// c11Model is the ClientSelectModel of DESIGN Appendix C for one stream.
// It returns the expected request sequence of the stream and how it ends: "eos" or "error".
func c11Model(sc c11Scenario, st c11Stream, playlistURL string, segURL func(i int) (string, string), initURL func() (string, string), hintURL func(i int) string, withFirstPlaylist bool, cause *string) ([]c11Req, string, int) {
	var reqs []c11Req
	poll := 0
	snap := func() c11Snap {
		k := poll
		if k >= len(st.Snaps) {
			k = len(st.Snaps) - 1
		}
		poll++
		return st.Snaps[k]
	}
	moved := 0
	add := func(u, r string) { reqs = append(reqs, c11Req{u, r}) }
	if withFirstPlaylist {
		add(playlistURL, "")
	}
	p := snap()
	if sc.Container == "fmp4" {
		u, r := initURL()
		add(u, r)
	}
	if sc.LL {
		if p.Hint < 0 {
			// no preload hint in the first playlist: traditional mode
		} else {
			for {
				add(hintURL(p.Hint), "")
				pu := playlistURL
				if sc.SkipUntil {
					if strings.Contains(pu, "?") {
						pu += "&_HLS_skip=YES"
					} else {
						pu += "?_HLS_skip=YES"
					}
				}
				add(pu, "")
				p = snap()
				if p.Hint < 0 {
					*cause = "hint-gone"
					return reqs, "error", moved
				}
				moved++
			}
		}
	}
	var cur int
	if sc.Type == "VOD" {
		cur = p.First
	} else {
		if p.N < 3 {
			*cause = "not-enough-segments"
			return reqs, "error", moved
		}
		cur = p.First + p.N - 3
	}
	prevFirst := p.First
	for {
		u, r := segURL(cur)
		add(u, r)
		if p.Endlist && cur == p.First+p.N-1 {
			*cause = "eos"
			return reqs, "eos", moved
		}
		add(playlistURL, "")
		p = snap()
		if p.First != prevFirst {
			moved++
			prevFirst = p.First
		}
		idx := cur + 1 - p.First
		if idx < 0 || idx >= p.N {
			*cause = "next-not-found"
			return reqs, "error", moved
		}
		if !p.Endlist && p.N-idx > 5 {
			*cause = "too-late"
			return reqs, "error", moved
		}
		cur++
	}
}

func execC11(sc c11Scenario) core.Outcome {
	var o core.Outcome
	// one tiny sample per track and segment
	var sd cli.StreamDef
	sd.Container = sc.Container
	mkPl := func(codec string, ts int, dur int64) cli.PlaylistDef {
		pl := cli.PlaylistDef{Tracks: []cli.TrackDef{{Codec: codec, TimeScale: ts, SampleDur: dur}}}
		for i := 0; i < sc.Total; i++ {
			pl.Segs = append(pl.Segs, cli.SegShape{Frags: [][]int{{1}}, Date: true})
		}
		pl.ByteRange = sc.Range == "explicit" || sc.Range == "continued" || sc.Range == "mixed"
		return pl
	}
	if sc.Container == "mpegts" {
		sd.Lead = mkPl("h264", 90000, 900)
	} else {
		sd.Lead = mkPl("h264", 90000, 900)
	}
	for i := 1; i < len(sc.Streams); i++ {
		r := mkPl("aac", 48000, 480)
		r.Name = fmt.Sprintf("r%d", i)
		sd.Renditions = append(sd.Renditions, r)
	}
	sd.Multi = sc.Multi
	b, err := cli.Build(sd)
	if err != nil {
		o.Skip = true
		return o
	}
	srv := cli.NewServer()
	base := "http://stream.test/live/"
	// URI styles
	rewrite := func(name string) string {
		switch sc.URIStyle {
		case "subdir":
			return "media/" + name
		case "up":
			return "../other/" + name
		case "abs":
			return "http://cdn.test/x/y/" + name
		case "netpath":
			// network-path reference (RFC 3986 4.2): another host, scheme of the playlist URL
			return "//cdn.test/x/y/" + name
		case "query":
			return name + "?tok=1&s=" + name[:1]
		}
		return name
	}
	resolve := func(plURL, ref string) string {
		bu, _ := url.Parse(plURL)
		ru, _ := url.Parse(ref)
		return bu.ResolveReference(ru).String()
	}
	all := append([]*cli.BuiltPlaylist{b.Lead}, b.Renditions...)
	const bigBase = uint64(5_000_000_000)
	if sc.BigOffset {
		for _, bp := range all {
			if !bp.Def.ByteRange {
				continue
			}
			for i := range bp.SegRanges {
				bp.SegRanges[i][0] += bigBase
			}
			if bp.InitURI != "" {
				bp.InitRange[0] += bigBase
			}
		}
	}
	type plInfo struct {
		url   string
		bp    *cli.BuiltPlaylist
		files map[string]bool
	}
	var infos []plInfo
	plDir := func(pi int) string {
		if !sc.SubDirs {
			return ""
		}
		if pi == 0 {
			return "video/main/"
		}
		return fmt.Sprintf("audio/r%d/", pi)
	}
	plQuery := ""
	if sc.PLQuery {
		plQuery = "?token=abc&b=2"
	}
	for pi, bp := range all {
		plURL := base + plDir(pi) + bp.Path + plQuery
		// register files under their resolved paths and rewrite the URIs of the playlist
		newURIs := make([]string, len(bp.SegURIs))
		for i, u := range bp.SegURIs {
			newURIs[i] = rewrite(u)
			ru, _ := url.Parse(resolve(plURL, newURIs[i]))
			if sc.BigOffset && bp.Def.ByteRange {
				srv.AddFileAt(strings.TrimPrefix(ru.Path, "/"), b.Files[u], bigBase)
			} else {
				srv.AddFile(strings.TrimPrefix(ru.Path, "/"), b.Files[u])
			}
		}
		if bp.InitURI != "" {
			ru, _ := url.Parse(resolve(plURL, rewrite(bp.InitURI)))
			if sc.BigOffset && bp.Def.ByteRange {
				srv.AddFileAt(strings.TrimPrefix(ru.Path, "/"), b.Files[bp.InitURI], bigBase)
			} else {
				srv.AddFile(strings.TrimPrefix(ru.Path, "/"), b.Files[bp.InitURI])
			}
		}
		orig := *bp
		cp := orig
		cp.SegURIs = newURIs
		if bp.InitURI != "" {
			cp.InitURI = rewrite(bp.InitURI)
		}
		st := sc.Streams[pi]
		var texts []string
		for _, sn := range st.Snaps {
			var extra []string
			if sc.DiscSeq {
				extra = append(extra, "#EXT-X-DISCONTINUITY-SEQUENCE:1000003")
			}
			if sc.Type == "EVENT" {
				extra = append(extra, "#EXT-X-PLAYLIST-TYPE:EVENT")
			}
			if sc.LL && pi == 0 {
				ctl := "#EXT-X-SERVER-CONTROL:CAN-BLOCK-RELOAD=YES,PART-HOLD-BACK=0.3"
				if sc.SkipUntil {
					ctl += ",CAN-SKIP-UNTIL=12.0"
				}
				extra = append(extra, ctl, "#EXT-X-PART-INF:PART-TARGET=0.1")
			}
			txt := cli.MediaPlaylistText(&cp, sc.Container, sn.First+sc.MSNBase, sn.First, sn.First+sn.N, sc.Type == "VOD", sn.Endlist, extra)
			if sc.Range == "nostart" {
				// every segment is its own resource: a byte range without start covers it from 0
				var sb strings.Builder
				idx := sn.First
				for _, l := range strings.SplitAfter(txt, "\n") {
					sb.WriteString(l)
					if strings.HasPrefix(l, "#EXTINF:") {
						fmt.Fprintf(&sb, "#EXT-X-BYTERANGE:%d\n", len(b.Files[bp.SegURIs[idx]]))
						idx++
					}
				}
				txt = sb.String()
			}
			if sc.Range == "continued" || sc.Range == "mixed" {
				// only the first listed sub-range carries its offset; the others continue after
				// the previous one (RFC 8216 4.3.2.2). mixed: each later sub-range drops its offset
				// or keeps it, per segment
				var sb strings.Builder
				seen := 0
				for _, l := range strings.SplitAfter(txt, "\n") {
					if strings.HasPrefix(l, "#EXT-X-BYTERANGE:") {
						seen++
						if seen > 1 && (sc.Range == "continued" || sc.RangeMask&(1<<((sn.First+seen-1)%16)) != 0) {
							if i := strings.IndexByte(l, '@'); i >= 0 {
								l = l[:i] + "\n"
							}
						}
					}
					sb.WriteString(l)
				}
				txt = sb.String()
			}
			if sc.EndlistEarly && sn.Endlist && strings.HasSuffix(txt, "#EXT-X-ENDLIST\n") {
				// the tag may appear anywhere in the playlist (RFC 8216 4.3.3.4)
				if k := strings.LastIndex(txt, "#EXTINF:"); k >= 0 {
					txt = strings.TrimSuffix(txt, "#EXT-X-ENDLIST\n")
					txt = txt[:k] + "#EXT-X-ENDLIST\n" + txt[k:]
				}
			}
			if sn.Hint >= 0 {
				txt += fmt.Sprintf("#EXT-X-PRELOAD-HINT:TYPE=PART,URI=\"%s\"\n", newURIs[sn.Hint])
			}
			texts = append(texts, txt)
		}
		srv.AddPlaylist("live/"+plDir(pi)+bp.Path, texts...)
		infos = append(infos, plInfo{url: plURL, bp: &cp})
	}
	mv := cli.MultivariantText(b)
	if sc.SubDirs {
		mv = strings.Replace(mv, "\nlead.m3u8\n", "\n"+plDir(0)+"lead.m3u8\n", 1)
		for i := range b.Renditions {
			mv = strings.Replace(mv, fmt.Sprintf("URI=\"rend%d.m3u8\"", i), fmt.Sprintf("URI=\"%srend%d.m3u8\"", plDir(i+1), i), 1)
		}
	}
	if sc.PLQuery {
		mv = strings.Replace(mv, "lead.m3u8\n", "lead.m3u8"+plQuery+"\n", 1)
		for i := range b.Renditions {
			mv = strings.Replace(mv, fmt.Sprintf("rend%d.m3u8\"", i), fmt.Sprintf("rend%d.m3u8%s\"", i, plQuery), 1)
		}
	}
	srv.AddPlaylist("live/index.m3u8", mv)

	entry := base + "lead.m3u8" + plQuery
	if sc.Multi {
		entry = base + "index.m3u8"
	}
	r := cli.RunClient(cli.RunOpts{URI: entry, Server: srv, CloseAtRequest: -1, MaxWait: 40 * time.Second})
	if r.StartErr != nil {
		return fail(o, "Start: %v", r.StartErr)
	}

	// ---- model ----
	kind := "eos"
	anyMoved := 0
	type expLog struct {
		reqs []c11Req
		end  string
	}
	var exps []expLog
	for pi, inf := range infos {
		bp := inf.bp
		origBP := all[pi]
		segURL := func(i int) (string, string) {
			u := resolve(inf.url, bp.SegURIs[i])
			switch sc.Range {
			case "explicit", "continued", "mixed":
				return u, fmt.Sprintf("bytes=%d-%d", origBP.SegRanges[i][0], origBP.SegRanges[i][0]+origBP.SegRanges[i][1]-1)
			case "nostart":
				return u, fmt.Sprintf("bytes=0-%d", len(b.Files[origBP.SegURIs[i]])-1)
			}
			return u, ""
		}
		initURL := func() (string, string) {
			u := resolve(inf.url, bp.InitURI)
			if sc.Range == "explicit" || sc.Range == "continued" || sc.Range == "mixed" {
				return u, fmt.Sprintf("bytes=%d-%d", origBP.InitRange[0], origBP.InitRange[0]+origBP.InitRange[1]-1)
			}
			return u, ""
		}
		hintURL := func(i int) string { return resolve(inf.url, bp.SegURIs[i]) }
		// the leading playlist is downloaded by the primary downloader when it is the entry point
		var cause string
		reqs, end, moved := c11Model(sc, sc.Streams[pi], inf.url, segURL, initURL, hintURL, true, &cause)
		o.Labels = append(o.Labels, "cause:"+cause)
		exps = append(exps, expLog{reqs, end})
		if end == "error" {
			kind = "error"
		}
		anyMoved += moved
	}
	o.NonTrivial = anyMoved >= 2
	o.Labels = append(o.Labels, "container:"+sc.Container, "uri:"+sc.URIStyle, "range:"+sc.Range, "type:"+sc.Type, "end:"+kind)
	if sc.LL {
		o.Labels = append(o.Labels, "low-latency")
	}
	if sc.Multi {
		o.Labels = append(o.Labels, "renditions")
	}
	if sc.SubDirs {
		o.Labels = append(o.Labels, "playlists-in-subdirs")
	}

	// ---- compare ----
	if !r.WaitReturned {
		return fail(o, "Wait() yielded nothing within 40 s; model expects %s; requests %v", kind, reqURLs(r.Requests))
	}
	isEOS := errors.Is(r.WaitErr, gohlslib.ErrClientEOS)
	if kind == "eos" && !isEOS {
		return fail(o, "client ended with %q, the model expects ErrClientEOS; requests %v", r.WaitErr, reqURLs(r.Requests))
	}
	if kind == "error" && isEOS {
		return fail(o, "client ended with ErrClientEOS, the model expects an error (next segment absent / too late / not enough segments / hint gone); requests %v", reqURLs(r.Requests))
	}
	// per-stream sub-logs
	complete := 0
	for pi, inf := range infos {
		var got []c11Req
		prefix := "lead"
		if pi > 0 {
			prefix = fmt.Sprintf("rend%d", pi-1)
		}
		for _, q := range r.Requests {
			name := q.URL
			if i := strings.LastIndex(name, "/"); i >= 0 {
				name = name[i+1:]
			}
			if !strings.HasPrefix(name, prefix) {
				continue
			}
			full := q.Scheme + "://" + q.Host + "/" + q.URL
			got = append(got, c11Req{full, q.Range})
		}
		want := exps[pi].reqs
		for k := range got {
			if k >= len(want) {
				return fail(o, "stream %s made %d requests, the model expects %d; extra: %v\nall: %v", prefix, len(got), len(want), got[k], reqURLs(r.Requests))
			}
			if got[k].rng != want[k].rng || !sameURL(got[k].url, want[k].url) {
				return fail(o, "stream %s request %d is %v, the model expects %v (playlist %s)\nall: %v", prefix, k, got[k], want[k], inf.url, reqURLs(r.Requests))
			}
		}
		if len(got) == len(want) {
			complete++
		} else if kind == "eos" {
			return fail(o, "stream %s made only %d of the %d expected requests before ErrClientEOS\nall: %v", prefix, len(got), len(want), reqURLs(r.Requests))
		}
	}
	if kind == "error" {
		// the stream that ends in error must have made all its requests
		ok := false
		for pi := range infos {
			prefix := "lead"
			if pi > 0 {
				prefix = fmt.Sprintf("rend%d", pi-1)
			}
			n := 0
			for _, q := range r.Requests {
				name := q.URL
				if i := strings.LastIndex(name, "/"); i >= 0 {
					name = name[i+1:]
				}
				if strings.HasPrefix(name, prefix) {
					n++
				}
			}
			if exps[pi].end == "error" && n == len(exps[pi].reqs) {
				ok = true
			}
		}
		if !ok {
			return fail(o, "the client stopped with %q before any stream reached the point where the model stops\nall: %v", r.WaitErr, reqURLs(r.Requests))
		}
	}
	return o
}

var propC11 = core.Prop[c11Scenario]{
	ID: "C11", CrashLog: true,
	Rule: "scripted playlist histories: per stream a list of snapshots served at successive polls (window 1-10, media sequence advancing by 0-6 per poll, ENDLIST at any poll, VOD / EVENT / untyped, media-sequence bases up to 2^31), URIs relative / sub-directory / parent directory / absolute on another host / with query, byte ranges explicit or without start, 0-2 rendition playlists with independent histories, Low-Latency histories with and without CAN-SKIP-UNTIL ending when the hint disappears; segments of one 10 ms sample; " +
		"oracle: the ordered request log of every stream (resolved URL, Range header) equals the ClientSelectModel's prediction, and Wait() yields ErrClientEOS exactly when the model ends all streams; non-trivial = the window moved at least twice before termination",
	Draw: drawC11,
	Exec: execC11,
}

func TestC11(t *testing.T) { core.Run(t, propC11) }

// TestKnownF17 passes (and prints STILL-REPRODUCES) while the client requests an
// EXT-X-BYTERANGE without offset from byte 0 although it follows another sub-range of the same
// resource (RFC 8216 4.3.2.2: it begins at the next byte after the previous sub-range).
func TestKnownF17(t *testing.T) {
	var sd cli.StreamDef
	sd.Container = "mpegts"
	sd.VOD = true
	pl := cli.PlaylistDef{Tracks: []cli.TrackDef{{Codec: "h264", TimeScale: 90000, SampleDur: 900}}, ByteRange: true}
	for i := 0; i < 3; i++ {
		pl.Segs = append(pl.Segs, cli.SegShape{Frags: [][]int{{1}}, Date: true})
	}
	sd.Lead = pl
	b, err := cli.Build(sd)
	if err != nil {
		t.Fatal(err)
	}
	txt := cli.MediaPlaylistText(b.Lead, "mpegts", 0, 0, 3, true, true, nil)
	// drop the offset of the second and third sub-range
	for i := 1; i < 3; i++ {
		txt = strings.Replace(txt, fmt.Sprintf("#EXT-X-BYTERANGE:%d@%d\n", b.Lead.SegRanges[i][1], b.Lead.SegRanges[i][0]), fmt.Sprintf("#EXT-X-BYTERANGE:%d\n", b.Lead.SegRanges[i][1]), 1)
	}
	srv := cli.NewServer()
	for p, f := range b.Files {
		srv.AddFile(p, f)
	}
	srv.AddPlaylist("lead.m3u8", txt)
	r := cli.RunClient(cli.RunOpts{URI: "http://stream.test/lead.m3u8", Server: srv, CloseAtRequest: -1, MaxWait: 10 * time.Second})
	want := fmt.Sprintf("bytes=%d-%d", b.Lead.SegRanges[1][0], b.Lead.SegRanges[1][0]+b.Lead.SegRanges[1][1]-1)
	for _, q := range r.Requests {
		if q.Range != "" && strings.HasPrefix(q.Range, "bytes=0-") && q.N > 1 {
			fmt.Printf("STILL-REPRODUCES F17: second sub-range requested as %s, RFC 8216 expects %s\n", q.Range, want)
			return
		}
	}
	fmt.Println("F17 does not reproduce; requests:", reqURLs(r.Requests))
}

// sameURL compares two URLs: scheme, host and path exactly, the query as a multiset of
// key/value pairs (the statement does not fix the order of query parameters).
func sameURL(a, b string) bool {
	if a == b {
		return true
	}
	ua, err1 := url.Parse(a)
	ub, err2 := url.Parse(b)
	if err1 != nil || err2 != nil {
		return false
	}
	if ua.Scheme != ub.Scheme || ua.Host != ub.Host || ua.Path != ub.Path {
		return false
	}
	qa, qb := ua.Query(), ub.Query()
	if len(qa) != len(qb) {
		return false
	}
	for k, va := range qa {
		vb := append([]string{}, qb[k]...)
		va = append([]string{}, va...)
		sort.Strings(va)
		sort.Strings(vb)
		if strings.Join(va, "\x00") != strings.Join(vb, "\x00") || len(va) != len(vb) {
			return false
		}
	}
	return true
}
