//go:build verif

package props

import (
	"context"
	"fmt"
	"os"
	"runtime"
	"strings"
	"sync"
	"testing"
	"time"

	gohlslib "github.com/bluenviron/gohlslib/v2"
	"pgregory.net/rapid"

	"verifharness/core"
	"verifharness/mux"
)

// E8: the client's segment queue under a harness-owned scheduler. Actors park at the yield
// points of the queue (between an unlock and the following wait) and at operation boundaries;
// exactly one actor is released at a time, chosen by the schedule.

type qOp struct {
	K string `json:"k"` // push | wait | pull | cancel
	N int    `json:"n,omitempty"`
}

type c20Scenario struct {
	Producer []qOp `json:"producer"`
	Pulls    int   `json:"pulls"`
	Cancel   bool  `json:"cancel"`
	Schedule []int `json:"schedule"`
}

type qActor struct {
	name     string
	ops      []qOp
	release  chan struct{}
	parked   chan string
	gid      int64
	done     bool
	blocked  bool
	at       string // where it is parked
	started  bool
	opIndex  int
	pulled   []int
	pullOK   []bool
	waitOK   []bool
	finished chan struct{}
	early    string
}

type qRun struct {
	actors    []*qActor
	byGID     sync.Map
	q         *gohlslib.VerifSegmentQueue
	ctx       context.Context
	cancel    context.CancelFunc
	pushed    int
	branching []int // number of options at each scheduling step
	preempt   int   // steps at which an actor parked at a yield point was not the one released next
	cancelled bool
}

func (r *qRun) yield(point string) {
	if point != "queue.pull.unlocked" && point != "queue.wait.unlocked" {
		return
	}
	v, ok := r.byGID.Load(mux.CurrentGoroutineID())
	if !ok {
		return
	}
	a := v.(*qActor)
	a.parked <- point
	<-a.release
}

func (r *qRun) actorMain(a *qActor) {
	a.gid = mux.CurrentGoroutineID()
	r.byGID.Store(a.gid, a)
	for i, op := range a.ops {
		a.parked <- fmt.Sprintf("op%d", i)
		<-a.release
		switch op.K {
		case "push":
			r.q.Push([]byte{byte(op.N)})
		case "wait":
			ok := r.q.WaitUntilSizeIsBelow(r.ctx, op.N)
			a.waitOK = append(a.waitOK, ok)
			// only the producer adds segments, so the backlog seen right after a successful
			// wait cannot be larger than at the moment the wait returned
			if l := r.q.Len(); ok && l > op.N && a.early == "" {
				a.early = fmt.Sprintf("waitUntilSizeIsBelow(%d) returned while %d segments were still queued", op.N, l)
			}
		case "pull":
			b, ok := r.q.Pull(r.ctx)
			a.pullOK = append(a.pullOK, ok)
			if ok {
				a.pulled = append(a.pulled, int(b[0]))
			}
		case "cancel":
			r.cancel()
		}
	}
	close(a.finished)
}

// settle waits until actor a is parked, finished or observed blocked inside the library.
func (r *qRun) settle(a *qActor) string {
	deadline := time.Now().Add(20 * time.Second)
	var lockSince time.Time
	for spin := 0; ; spin++ {
		select {
		case p := <-a.parked:
			a.at, a.blocked = p, false
			return ""
		case <-a.finished:
			a.done, a.blocked, a.at = true, false, ""
			return ""
		default:
		}
		if spin < 8 {
			runtime.Gosched()
			continue
		}
		if a.gid != 0 {
			st, _ := mux.StateOf(a.gid)
			if st == "select" || st == "chan receive" {
				// parked channels are buffered: a goroutine parked by the harness shows "chan receive"
				// only after its message is in the buffer, which the select above drains first
				select {
				case p := <-a.parked:
					a.at, a.blocked = p, false
					return ""
				case <-a.finished:
					a.done, a.blocked, a.at = true, false, ""
					return ""
				default:
				}
				if st == "select" {
					a.blocked, a.at = true, ""
					return ""
				}
			}
		}
		if a.gid != 0 && spin > 8 {
			if st, _ := mux.StateOf(a.gid); strings.Contains(st, "Mutex") || strings.Contains(st, "semacquire") {
				// waiting for the queue's mutex: momentary unless an earlier operation returned with
				// the lock held
				if lockSince.IsZero() {
					lockSince = time.Now()
				} else if time.Since(lockSince) > 3*time.Second {
					return "LOCK: " + a.name + " has been waiting for the queue's mutex for 3 s (state " + st + "): an earlier operation returned with the lock held"
				}
			} else {
				lockSince = time.Time{}
			}
		}
		if time.Now().After(deadline) {
			return "actor " + a.name + " did not settle"
		}
		time.Sleep(20 * time.Microsecond)
	}
}

func execC20(sc c20Scenario) core.Outcome {
	var o core.Outcome
	v, branching, preempt, err := runQueueSchedule(sc)
	if err != "" {
		o.Skip = true
		return o
	}
	_ = branching
	o.NonTrivial = preempt > 0
	if preempt > 0 {
		o.Labels = append(o.Labels, "preempted-at-yield")
	}
	if sc.Cancel {
		o.Labels = append(o.Labels, "cancel")
	}
	o.Violation = v
	return o
}

// runQueueSchedule executes the scenario; returns violation, branching factors, preemptions.
func runQueueSchedule(sc c20Scenario) (string, []int, int, string) {
	r := &qRun{q: gohlslib.VerifNewSegmentQueue()}
	r.ctx, r.cancel = context.WithCancel(context.Background())
	defer r.cancel()
	mk := func(name string, ops []qOp) *qActor {
		return &qActor{name: name, ops: ops, release: make(chan struct{}), parked: make(chan string, 1), finished: make(chan struct{})}
	}
	var pulls []qOp
	for i := 0; i < sc.Pulls; i++ {
		pulls = append(pulls, qOp{K: "pull"})
	}
	prod := mk("producer", sc.Producer)
	cons := mk("consumer", pulls)
	r.actors = []*qActor{prod, cons}
	if sc.Cancel {
		r.actors = append(r.actors, mk("canceller", []qOp{{K: "cancel"}}))
	}
	gohlslib.VerifSetYield(r.yield)
	defer gohlslib.VerifSetYield(nil)
	for _, a := range r.actors {
		go r.actorMain(a)
	}
	for _, a := range r.actors {
		if e := r.settle(a); e != "" {
			if strings.HasPrefix(e, "LOCK: ") {
				return e[6:], nil, 0, ""
			}
			return "", nil, 0, e
		}
	}
	// release blocked/unfinished actors at the end
	defer func() {
		r.cancel()
		for _, a := range r.actors {
			for !a.done {
				select {
				case <-a.parked:
					a.release <- struct{}{}
				case <-a.finished:
					a.done = true
				case <-time.After(5 * time.Second):
					a.done = true // leaked: reported by the oracle already
				}
			}
		}
	}()

	pushedVals := []int{}
	modelLen := func() int { return r.q.Len() }
	step := 0
	var lastParkedAtYield *qActor
	for {
		var options []*qActor
		for _, a := range r.actors {
			if !a.done && !a.blocked {
				options = append(options, a)
			}
		}
		if len(options) == 0 {
			break
		}
		choice := 0
		if step < len(sc.Schedule) {
			choice = sc.Schedule[step] % len(options)
		}
		r.branching = append(r.branching, len(options))
		step++
		a := options[choice]
		if lastParkedAtYield != nil && lastParkedAtYield != a && !lastParkedAtYield.done {
			r.preempt++
		}
		// bookkeeping of completed operations happens when the actor parks again / finishes
		wasAt := a.at
		a.release <- struct{}{}
		if e := r.settle(a); e != "" {
			if strings.HasPrefix(e, "LOCK: ") {
				return e[6:], r.branching, r.preempt, ""
			}
			return "", nil, 0, e
		}
		_ = wasAt
		if !a.done && !a.blocked && (a.at == "queue.pull.unlocked" || a.at == "queue.wait.unlocked") {
			lastParkedAtYield = a
		} else {
			lastParkedAtYield = nil
		}
		// actors that were blocked may have been woken by this step
		for _, b := range r.actors {
			if b != a && b.blocked {
				st, _ := mux.StateOf(b.gid)
				if st != "select" {
					if e := r.settle(b); e != "" {
						return "", nil, 0, e
					}
				}
			}
		}
		if step > 400 {
			return "", nil, 0, "schedule too long"
		}
	}
	// ---- quiescent: nobody can move ----
	for _, op := range sc.Producer {
		if op.K == "push" {
			pushedVals = append(pushedVals, op.N)
		}
	}
	cancelled := r.ctx.Err() != nil
	// FIFO, exactly once
	for i, v := range cons.pulled {
		if i >= len(pushedVals) || pushedVals[i] != v {
			return fmt.Sprintf("consumer pulled %v, producer pushed %v: not FIFO / exactly once", cons.pulled, pushedVals), r.branching, r.preempt, ""
		}
	}
	for i, ok := range cons.pullOK {
		if !ok && !cancelled {
			return fmt.Sprintf("pull %d returned false without cancellation", i), r.branching, r.preempt, ""
		}
	}
	for i, ok := range prod.waitOK {
		if !ok && !cancelled {
			return fmt.Sprintf("waitUntilSizeIsBelow %d returned false without cancellation", i), r.branching, r.preempt, ""
		}
	}
	if prod.early != "" {
		return "throttled downloader released too early: " + prod.early, r.branching, r.preempt, ""
	}
	n := modelLen()
	for _, a := range r.actors {
		if !a.blocked {
			continue
		}
		if cancelled {
			return fmt.Sprintf("%s is still blocked after cancellation (queue length %d)", a.name, n), r.branching, r.preempt, ""
		}
		if a == cons {
			if n > 0 {
				return fmt.Sprintf("consumer is blocked in pull although %d segment(s) are queued: lost wake-up", n), r.branching, r.preempt, ""
			}
			continue
		}
		if a == prod {
			// the producer's current op is the first wait that has not returned
			cnt := 0
			for _, o := range a.ops {
				if o.K != "wait" {
					continue
				}
				if cnt == len(a.waitOK) {
					if n <= o.N {
						return fmt.Sprintf("producer is blocked in waitUntilSizeIsBelow(%d) although the queue holds %d segment(s): lost wake-up", o.N, n), r.branching, r.preempt, ""
					}
					break
				}
				cnt++
			}
		}
	}
	return "", r.branching, r.preempt, ""
}

func drawC20(t *rapid.T) c20Scenario {
	var sc c20Scenario
	np := rapid.IntRange(1, 7).Draw(t, "nprod")
	val := 1
	for i := 0; i < np; i++ {
		if rapid.IntRange(0, 2).Draw(t, "kind") == 0 {
			sc.Producer = append(sc.Producer, qOp{K: "wait", N: rapid.IntRange(0, 2).Draw(t, "n")})
		} else {
			sc.Producer = append(sc.Producer, qOp{K: "push", N: val})
			val++
		}
	}
	sc.Pulls = rapid.IntRange(0, 5).Draw(t, "pulls")
	sc.Cancel = rapid.IntRange(0, 3).Draw(t, "cancel") == 0
	sc.Schedule = rapid.SliceOfN(rapid.IntRange(0, 5), 0, 40).Draw(t, "schedule")
	return sc
}

var propC20 = core.Prop[c20Scenario]{
	ID:  "C20",
	Sub: "queue",
	Rule: "programs of one producer (push / waitUntilSizeIsBelow(0..2)), one consumer (pulls) and an optional canceller on the client's segment queue, run under a harness scheduler that releases one actor at a time at the queue's yield points (after unlock, before the wait) and at operation boundaries, following a drawn schedule; " +
		"oracle: pulled values == pushed values in order, each once; false only after cancellation; at quiescence no consumer blocked with a non-empty queue, no producer blocked in wait(n) with length <= n, nobody blocked after cancel; non-trivial = schedule preempted an actor parked between unlock and wait",
	Draw: drawC20,
	Exec: execC20,
}

func TestC20(t *testing.T) { core.Run(t, propC20) }

// TestC20Exhaustive enumerates every schedule of a set of small programs (stateless DFS over
// the scheduler's choice points).
func TestC20Exhaustive(t *testing.T) {
	defer core.FlushStats()
	programs := []c20Scenario{
		{Producer: []qOp{{K: "push", N: 1}, {K: "push", N: 2}, {K: "wait", N: 1}}, Pulls: 1},
		{Producer: []qOp{{K: "push", N: 1}, {K: "wait", N: 0}, {K: "push", N: 2}, {K: "wait", N: 0}}, Pulls: 2},
		{Producer: []qOp{{K: "push", N: 1}, {K: "push", N: 2}, {K: "push", N: 3}, {K: "wait", N: 1}}, Pulls: 2},
		{Producer: []qOp{{K: "push", N: 1}, {K: "push", N: 2}}, Pulls: 3, Cancel: true},
		{Producer: []qOp{{K: "push", N: 1}, {K: "wait", N: 0}}, Pulls: 0, Cancel: true},
		{Producer: []qOp{{K: "wait", N: 0}, {K: "push", N: 1}, {K: "push", N: 2}, {K: "wait", N: 1}, {K: "push", N: 3}}, Pulls: 3},
	}
	if core.Thorough() {
		programs = append(programs,
			c20Scenario{Producer: []qOp{{K: "push", N: 1}, {K: "push", N: 2}, {K: "wait", N: 1}, {K: "push", N: 3}, {K: "wait", N: 1}, {K: "push", N: 4}, {K: "wait", N: 2}}, Pulls: 4},
			c20Scenario{Producer: []qOp{{K: "push", N: 1}, {K: "push", N: 2}, {K: "push", N: 3}, {K: "wait", N: 2}, {K: "wait", N: 1}, {K: "wait", N: 0}}, Pulls: 3, Cancel: true},
			c20Scenario{Producer: []qOp{{K: "push", N: 1}, {K: "wait", N: 0}, {K: "push", N: 2}, {K: "wait", N: 0}, {K: "push", N: 3}, {K: "wait", N: 0}, {K: "push", N: 4}}, Pulls: 4},
		)
	}
	total := 0
	for pi, prog := range programs {
		// DFS over choice sequences
		prefix := []int{}
		count := 0
		for {
			sc := prog
			sc.Schedule = append([]int{}, prefix...)
			v, branching, preempt, err := runQueueSchedule(sc)
			if err != "" {
				t.Fatalf("program %d: harness: %s", pi, err)
			}
			count++
			core.Record("C20", fmt.Sprintf("exh-%d-%v", pi, prefix), core.Outcome{NonTrivial: preempt > 0, Labels: []string{"exhaustive"}}, sc)
			if v != "" {
				core.WriteFail("C20", "queue", sc, v)
				t.Fatalf("VIOLATION C20: program %d schedule %v: %s", pi, prefix, v)
			}
			// next schedule: extend prefix with zeros implicitly; find the last position that can be incremented
			full := make([]int, len(branching))
			copy(full, prefix)
			i := len(full) - 1
			for i >= 0 && full[i]+1 >= branching[i] {
				i--
			}
			if i < 0 {
				break
			}
			prefix = append(full[:i:i], full[i]+1)
			if count > 400000 {
				t.Logf("program %d: stopped after %d schedules", pi, count)
				break
			}
		}
		total += count
		core.AddExtra("C20", fmt.Sprintf("exhaustive_schedules_program_%d", pi), count)
	}
	core.AddExtra("C20", "exhaustive_schedules_total", total)
	_ = os.Getenv
}

// TestC20Race runs producer and consumer freely (no scheduler, no yield function) so that the
// race detector can see unsynchronised accesses inside the queue. Meaningful with -race only.
func TestC20Race(t *testing.T) {
	defer core.FlushStats()
	rounds := 300
	if core.Thorough() {
		rounds = 5000
	}
	for r := 0; r < rounds; r++ {
		q := gohlslib.VerifNewSegmentQueue()
		ctx, cancel := context.WithCancel(context.Background())
		const n = 40
		var wg sync.WaitGroup
		wg.Add(2)
		var got []int
		go func() {
			defer wg.Done()
			for i := 0; i < n; i++ {
				q.Push([]byte{byte(i)})
				if !q.WaitUntilSizeIsBelow(ctx, r%3) {
					return
				}
			}
		}()
		go func() {
			defer wg.Done()
			for i := 0; i < n; i++ {
				b, ok := q.Pull(ctx)
				if !ok {
					return
				}
				got = append(got, int(b[0]))
				if i%7 == r%7 {
					runtime.Gosched()
				}
			}
		}()
		done := make(chan struct{})
		go func() { wg.Wait(); close(done) }()
		select {
		case <-done:
		case <-time.After(20 * time.Second):
			cancel()
			t.Fatalf("VIOLATION C20: free-running producer/consumer did not finish (round %d): lost wake-up", r)
		}
		cancel()
		for i, v := range got {
			if v != i {
				t.Fatalf("VIOLATION C20: free-running round %d: pulled %v", r, got)
			}
		}
		core.Record("C20", fmt.Sprintf("race-%d", r), core.Outcome{NonTrivial: true, Labels: []string{"free-running"}}, map[string]int{"round": r, "wait_n": r % 3})
	}
}
