//go:build verif

package props

import "verifharness/mux"

func init() {
	mux.PathCounter = func(d *mux.Driver) int { return d.M.VerifPathCount() }
}
