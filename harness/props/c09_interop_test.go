package props

import (
	"bytes"
	"fmt"
	"math/big"
	"net/http"
	"net/http/httptest"
	"os"
	"reflect"
	"strings"
	"sync"
	"sync/atomic"
	"testing"
	"time"

	"github.com/bluenviron/gohlslib/v2/pkg/codecs"
	"github.com/bluenviron/mediacommon/v2/pkg/codecs/av1"
	"github.com/bluenviron/mediacommon/v2/pkg/codecs/h264"
	"pgregory.net/rapid"

	"verifharness/cli"
	"verifharness/core"
	"verifharness/mux"
)

// ---- C09: a Client reading a Muxer reproduces the written stream (engine E4) ----

type c09One struct {
	Script      mux.Script `json:"script"`
	Entry       string     `json:"entry"`        // index | media
	AttachAfter int        `json:"attach_after"` // completed segments before the client starts
	// PaceNS: when op i is written, in ns after the first one (media time; the NTP values passed to
	// the muxer may be stepped and are not used for pacing). Absent in old replay files.
	PaceNS []int64 `json:"pace_ns,omitempty"`
}

type c09Scenario struct {
	Runs []c09One `json:"runs"` // executed concurrently (they mostly sleep: writes are paced in real time)
}

// muxTransport serves the client's requests from Muxer.Handle, honouring request cancellation.
type muxTransport struct {
	drv *mux.Driver
}

func (t *muxTransport) RoundTrip(req *http.Request) (*http.Response, error) {
	rec := httptest.NewRecorder()
	done := make(chan struct{})
	r2 := req.Clone(req.Context())
	go func() {
		defer func() {
			if r := recover(); r != nil {
				rec.WriteHeader(599)
			}
			close(done)
		}()
		t.drv.M.Handle(rec, r2)
	}()
	select {
	case <-done:
	case <-req.Context().Done():
		return nil, req.Context().Err()
	}
	res := rec.Result()
	res.Request = req
	if rec.Code == 200 && rec.Body.Len() == 0 && len(rec.Header()) == 0 {
		res.StatusCode = 404 // the muxer leaves unknown paths unanswered
	}
	return res, nil
}

func drawC09One(t *rapid.T) c09One {
	var one c09One
	variant := rapid.SampledFrom([]int{mux.VariantMPEGTS, mux.VariantFMP4, mux.VariantFMP4, mux.VariantLL, mux.VariantLL}).Draw(t, "variant")
	cfg := mux.Config{Variant: variant}
	hasVideo := rapid.IntRange(0, 4).Draw(t, "hasVideo") != 0
	nAudio := rapid.IntRange(0, 2).Draw(t, "nAudio")
	if variant == mux.VariantMPEGTS && nAudio > 1 {
		nAudio = 1
	}
	if !hasVideo && nAudio == 0 {
		nAudio = 1
	}
	var tracks []mux.TrackSpec
	if hasVideo {
		codec := "h264"
		if variant != mux.VariantMPEGTS {
			codec = rapid.SampledFrom([]string{"h264", "h264", "h265", "vp9", "av1"}).Draw(t, "vcodec")
		}
		v := mux.TrackSpec{Codec: codec}
		if codec == "h265" {
			v.Params = rapid.SampledFrom([]int{0, 2}).Draw(t, "h265set")
		} else {
			v.Params = rapid.IntRange(0, mux.NumParamSets(codec)-1).Draw(t, "paramset")
		}
		tracks = append(tracks, v)
	}
	userDefault := -1
	if nAudio > 0 && rapid.Bool().Draw(t, "userDefault") {
		userDefault = rapid.IntRange(0, nAudio-1).Draw(t, "defaultAt")
	}
	for i := 0; i < nAudio; i++ {
		a := mux.TrackSpec{Codec: "aac", SampleRate: rapid.SampledFrom([]int{48000, 44100, 32000}).Draw(t, "rate"), Channels: 2, AACType: 2}
		if variant != mux.VariantMPEGTS && rapid.IntRange(0, 2).Draw(t, "opus") == 0 {
			a = mux.TrackSpec{Codec: "opus", Channels: rapid.SampledFrom([]int{2, 2, 1}).Draw(t, "opusch")}
		} else if rapid.IntRange(0, 3).Draw(t, "mono") == 0 {
			a.Channels = 1
		}
		if rapid.Bool().Draw(t, "named") {
			a.Name = rapid.SampledFrom([]string{"English", "Deutsch", "commentary"}).Draw(t, "name")
			a.Language = rapid.SampledFrom([]string{"en", "de", "", "pt-BR", "zh-Hans"}).Draw(t, "lang")
		}
		a.IsDefault = i == userDefault
		tracks = append(tracks, a)
	}
	if hasVideo && len(tracks) > 1 && rapid.Bool().Draw(t, "audioFirst") {
		tracks[0], tracks[1] = tracks[1], tracks[0]
	}
	cfg.Tracks = tracks
	cfg.SegmentCount = rapid.IntRange(7, 9).Draw(t, "segCount")
	if variant != mux.VariantLL {
		cfg.SegmentCount = rapid.IntRange(3, 8).Draw(t, "segCount2")
	}
	cfg.SegmentMinDuration = rapid.SampledFrom([]int64{500e6, 600e6, 800e6}).Draw(t, "segMin")
	if variant == mux.VariantLL {
		cfg.PartMinDuration = rapid.SampledFrom([]int64{100e6, 150e6, 200e6}).Draw(t, "partMin")
	}
	one.AttachAfter = rapid.IntRange(3, 5).Draw(t, "attachAfter")
	totalSegs := one.AttachAfter + rapid.IntRange(3, 4).Draw(t, "runSegs")
	segSec := float64(cfg.SegmentMinDuration) / 1e9
	total := float64(totalSegs)*segSec + 0.3

	lead := cfg.LeadingTrack()
	start := rapid.Int64Range(0, 1<<34).Draw(t, "start")
	if variant == mux.VariantMPEGTS && rapid.IntRange(0, 3).Draw(t, "wrap33") == 0 {
		// the 33-bit MPEG-TS clock wraps a few seconds into the run (after the client attached)
		start = 1<<33 - rapid.Int64Range(2*90000, 5*90000).Draw(t, "beforeWrap")
	}
	cfg.NTPZoneMin = rapid.SampledFrom([]int{0, 0, 0, 120, -330}).Draw(t, "ntpZone")
	ntpBase := int64(1_577_836_800_000_000_000)
	var all [][]mux.Op
	var medias [][]float64
	// the wall clock all tracks take their NTP from is stepped 0-2 times (most runs: never), at
	// media times in the second half of the run: NTP is then not linear in the time stamps
	type ntpJump struct {
		at float64
		d  int64
	}
	var jumps []ntpJump
	for k := rapid.SampledFrom([]int{0, 0, 0, 1, 1, 2}).Draw(t, "ntpJumps"); k > 0; k-- {
		jumps = append(jumps, ntpJump{
			at: total * float64(rapid.IntRange(45, 95).Draw(t, "ntpJumpAt")) / 100,
			d:  int64(rapid.SampledFrom([]int{-300, -40, 25, 120, 500, 800}).Draw(t, "ntpJumpMs")) * 1_000_000,
		})
	}
	ntpShift := func(m float64) int64 {
		var sh int64
		for _, j := range jumps {
			if m >= j.at {
				sh += j.d
			}
		}
		return sh
	}
	for ti, spec := range cfg.Tracks {
		rate := int64(spec.ClockRate())
		var ops []mux.Op
		var med []float64
		if spec.IsVideo() {
			fps := rapid.SampledFrom([]int64{10, 15, 25, 30, 50}).Draw(t, "fps")
			frame := rate / fps
			gop := int64(segSec*float64(fps)+0.5) / 2
			if gop < 1 {
				gop = 1
			}
			n := int(total * float64(fps))
			ts := start
			for k := 0; k < n; k++ {
				op := mux.Op{Track: ti, TS: ts, Size: rapid.IntRange(8, 24).Draw(t, "size")}
				if int64(k)%gop == 0 {
					op.Kind = mux.KindRA
					op.InBand = spec.Params + 1
				} else {
					op.Kind = mux.KindInter
				}
				m := float64(ts-start) / float64(rate)
				op.NTP = ntpBase + ntpShift(m) + (ts-start)*1_000_000_000/rate
				ops = append(ops, op)
				med = append(med, m)
				ts += frame
			}
		} else {
			leadRate := int64(cfg.Tracks[lead].ClockRate())
			ts := start * rate / leadRate
			base := ts
			per := int64(1024)
			if spec.Codec == "opus" {
				per = 960
			}
			// audio may reach the muxer late: it is written (and paced) lag seconds after its time
			// stamps, i.e. after video units that are later in media time
			lag := rapid.SampledFrom([]float64{0, 0, 0.03, 0.08, 0.15}).Draw(t, "audioLag")
			for {
				m := float64(ts-base) / float64(rate)
				if m > total {
					break
				}
				// Opus TOC config 1: 20 ms packets (960 ticks), so that consecutive writes do not overlap
				op := mux.Op{Track: ti, TS: ts, Size: rapid.IntRange(8, 20).Draw(t, "asize"), N: 1, OpusC: 1, OpusF: 1}
				if variant != mux.VariantMPEGTS || true {
					op.N = rapid.SampledFrom([]int{1, 1, 2}).Draw(t, "n")
				}
				adv := per * int64(op.N)
				if spec.Codec == "opus" {
					op.N = rapid.SampledFrom([]int{1, 1, 2, 3}).Draw(t, "nOpus")
					adv = per * int64(op.N)
					if op.N > 1 && rapid.Bool().Draw(t, "opusMix") {
						// packets of different durations inside one write
						op.OpusMix = true
						adv = 0
						for k := 0; k < op.N; k++ {
							adv += mux.OpusPacketTicks(mux.OpusMixConfig(op.OpusC, k), 1)
						}
					}
				}
				op.NTP = ntpBase + ntpShift(m) + (ts-base)*1_000_000_000/rate
				ops = append(ops, op)
				med = append(med, m+lag)
				ts += adv
			}
		}
		all = append(all, ops)
		medias = append(medias, med)
	}
	// merge by media time
	idx := make([]int, len(all))
	for {
		pick := -1
		for ti := range all {
			if idx[ti] < len(all[ti]) && (pick < 0 || medias[ti][idx[ti]] < medias[pick][idx[pick]]) {
				pick = ti
			}
		}
		if pick < 0 {
			break
		}
		one.Script.Ops = append(one.Script.Ops, all[pick][idx[pick]])
		one.PaceNS = append(one.PaceNS, int64(medias[pick][idx[pick]]*1e9))
		idx[pick]++
	}
	// no boundary decision within 1 ns of SegmentMinDuration (frames are whole fractions of a second)
	cfg.SegmentMinDuration -= 1_000_000
	one.Script.Config = cfg
	one.Entry = rapid.SampledFrom([]string{"index", "index", "media"}).Draw(t, "entry")
	return one
}

func drawC09(t *rapid.T) c09Scenario {
	var sc c09Scenario
	n := 6
	for i := 0; i < n; i++ {
		sc.Runs = append(sc.Runs, drawC09One(t))
	}
	return sc
}

// clientData converts a model unit to what the client hands to the callback.
func clientData(cfg mux.Config, u mux.MUnit) [][]byte {
	if cfg.Variant == mux.VariantMPEGTS {
		return u.Parts
	}
	switch cfg.Tracks[u.Track].Codec {
	case "h264", "h265":
		var au h264.AVCC
		if err := au.Unmarshal(u.Payload); err != nil {
			return nil
		}
		return au
	case "av1":
		var bs av1.Bitstream
		if err := bs.Unmarshal(u.Payload); err != nil {
			return nil
		}
		return bs
	}
	return [][]byte{u.Payload}
}

type c09Result struct {
	violation string
	delivered int
	labels    []string
	segs      int
	excluded  int // AbsoluteTime comparisons left out because of open finding F21
	absChecks int
}

// c09NoExclusions: the regression of known finding F21 runs without its exclusion.
var c09NoExclusions = false

func runC09One(one c09One) c09Result {
	var res c09Result
	cfg := one.Script.Config
	drv, err := mux.NewDriver(cfg, os.Getenv("VERIF_TMP"))
	if err != nil {
		res.violation = ""
		return res
	}
	model := mux.NewModel(cfg)
	var completed atomic.Int64
	var writeErr atomic.Value
	var ambiguous atomic.Bool
	writerDone := make(chan struct{})
	stopWriter := make(chan struct{})
	var modelMu sync.Mutex
	go func() {
		defer close(writerDone)
		t0 := time.Now()
		first := one.Script.Ops[0].NTP
		for i, op := range one.Script.Ops {
			due := t0.Add(time.Duration(op.NTP - first))
			if len(one.PaceNS) == len(one.Script.Ops) {
				due = t0.Add(time.Duration(one.PaceNS[i] - one.PaceNS[0]))
			}
			if d := time.Until(due); d > 0 {
				select {
				case <-time.After(d):
				case <-stopWriter:
					return
				}
			}
			modelMu.Lock()
			if st := model.Step(i, op); st.Ambiguous {
				ambiguous.Store(true)
			}
			n := len(model.Segs)
			modelMu.Unlock()
			if err := drv.Write(i, op); err != nil {
				writeErr.Store(err.Error())
				return
			}
			completed.Store(int64(n))
		}
	}()
	// wait for the attach point
	deadline := time.Now().Add(30 * time.Second)
	for completed.Load() < int64(one.AttachAfter) {
		select {
		case <-writerDone:
			drv.Close()
			return res // stream ended before the attach point: nothing to check
		default:
		}
		if time.Now().After(deadline) {
			close(stopWriter)
			<-writerDone
			drv.Close()
			return res
		}
		time.Sleep(5 * time.Millisecond)
	}
	uri := "http://mux.test/index.m3u8"
	if one.Entry == "media" {
		uri = "http://mux.test/" + cfg.LeadingStream() + "_stream.m3u8"
	}
	stop := make(chan struct{})
	go func() {
		<-writerDone
		time.Sleep(400 * time.Millisecond)
		close(stop)
	}()
	r := cli.RunClient(cli.RunOpts{URI: uri, Transport: &muxTransport{drv: drv}, Stop: stop, CloseAtRequest: -1, MaxWait: 40 * time.Second, SkipLeakCheck: true})
	<-writerDone
	drv.Close()
	if e, ok := writeErr.Load().(string); ok {
		res.violation = "harness: write failed: " + e
		return res
	}
	if ambiguous.Load() {
		// a boundary decision within 1 ns of SegmentMinDuration: the model's segments are not decided
		res.labels = append(res.labels, "skipped:ambiguous-boundary")
		return res
	}
	res.labels = append(res.labels, fmt.Sprintf("variant=%d", cfg.Variant), "entry:"+one.Entry)
	for _, tr := range cfg.Tracks {
		res.labels = append(res.labels, "codec:"+tr.Codec)
	}
	if r.StartErr != nil {
		res.violation = "Start: " + r.StartErr.Error()
		return res
	}
	if strings.HasPrefix(fmt.Sprint(r.WaitErr), "HARNESS:") {
		res.violation = "client did not end after Close"
		return res
	}
	if r.WaitReturned && r.WaitErr != nil {
		msg := r.WaitErr.Error()
		if len(msg) > 50 {
			msg = msg[:50]
		}
		res.labels = append(res.labels, fmt.Sprintf("client-ended:v%d:%s", cfg.Variant, msg))
	}
	if r.WaitReturned && r.WaitErr != nil {
		// the script ends, so the client eventually finds no next segment; any other error of its
		// own on a stream a Muxer produced from a well-formed script is a defect
		msg := r.WaitErr.Error()
		if !strings.Contains(msg, "next segment not found or not ready yet") && !strings.Contains(msg, "playback is too late") && !strings.Contains(msg, "terminated") {
			res.violation = fmt.Sprintf("the client stopped on its own with %q while reading a well-formed stream", msg)
			return res
		}
	}
	if r.ChangedAfterDelivery > 0 {
		res.violation = fmt.Sprintf("%d delivered units changed after their callback returned (first: %s): the slices handed to the application are reused", r.ChangedAfterDelivery, r.ChangedExample)
		return res
	}
	if r.OnTracksCalls == 0 {
		// the client may legitimately stop early (e.g. the next segment was late); but failing before
		// tracks are known on a healthy stream is a defect
		res.violation = fmt.Sprintf("the client never reported tracks; Wait() yielded %q", r.WaitErr)
		return res
	}
	// ---- expected tracks ----
	lead := cfg.LeadingTrack()
	var order []int
	if cfg.Variant == mux.VariantMPEGTS {
		for ti := range cfg.Tracks {
			order = append(order, ti)
		}
	} else {
		order = append(order, lead)
		if one.Entry == "index" {
			for ti := range cfg.Tracks {
				if ti != lead {
					order = append(order, ti)
				}
			}
		}
	}
	if len(r.Tracks) != len(order) {
		res.violation = fmt.Sprintf("client reported %d tracks (%+v), the muxer serves %d through %s", len(r.Tracks), r.Tracks, len(order), one.Entry)
		return res
	}
	userDefault := false
	for _, tr := range cfg.Tracks {
		if !tr.IsVideo() && tr.IsDefault {
			userDefault = true
		}
	}
	modelMu.Lock()
	defer modelMu.Unlock()
	// flatten model units per track (complete segments + open one)
	units := make([][]mux.MUnit, len(cfg.Tracks))
	segs := append([]*mux.MSeg{}, model.Segs...)
	if model.Open != nil {
		segs = append(segs, model.Open)
	}
	segOf := make([][]*mux.MSeg, len(cfg.Tracks)) // the segment each unit belongs to
	for _, sg := range segs {
		for ti := range cfg.Tracks {
			units[ti] = append(units[ti], sg.Units[ti]...)
			for range sg.Units[ti] {
				segOf[ti] = append(segOf[ti], sg)
			}
		}
	}
	res.segs = len(model.Segs)
	// stepUpTo[sg]: the written NTP of sg, of an earlier segment or of the next one is not the
	// previous segment's NTP plus its duration (the wall clock was stepped)
	stepUpTo := map[*mux.MSeg]bool{}
	{
		nonLinear := make([]bool, len(segs))
		for k := 1; k < len(segs); k++ {
			p, q := segs[k-1], segs[k]
			dur := new(big.Rat).Mul(big.NewRat(q.StartTicks-p.StartTicks, p.Rate), big.NewRat(1_000_000_000, 1))
			ns, _ := new(big.Float).SetRat(dur).Int64()
			gap := q.NTP.Sub(p.NTP.Add(time.Duration(ns)))
			nonLinear[k] = gap < -2*time.Millisecond || gap > 2*time.Millisecond
		}
		seen := false
		for k := range segs {
			if nonLinear[k] || (k+1 < len(segs) && nonLinear[k+1]) {
				seen = true
			}
			stepUpTo[segs[k]] = seen
		}
	}
	var originLead int64 = -1
	leadRate := int64(cfg.Tracks[lead].ClockRate())
	for ci, ti := range order {
		spec := cfg.Tracks[ti]
		got := r.Tracks[ci]
		if got.Codec != spec.Codec {
			res.violation = fmt.Sprintf("track %d reported as %s, written as %s", ci, got.Codec, spec.Codec)
			return res
		}
		wantRate := spec.ClockRate()
		if cfg.Variant == mux.VariantMPEGTS {
			wantRate = 90000
		}
		if got.ClockRate != wantRate {
			res.violation = fmt.Sprintf("track %d (%s) reported with clock rate %d, expected %d", ci, spec.Codec, got.ClockRate, wantRate)
			return res
		}
		if cfg.Variant != mux.VariantMPEGTS {
			// "for fMP4 variants the same codec parameters" (no parameter change is scripted)
			if d := codecParamDiff(mux.CodecOf(spec), got.Raw.Codec); d != "" {
				res.violation = fmt.Sprintf("track %d (%s): codec parameters reported by the client differ from the muxer's: %s", ci, spec.Codec, d)
				return res
			}
		}
		if cfg.Variant != mux.VariantMPEGTS && ti != lead {
			st, _ := cfg.StreamOf(ti)
			wantName := spec.Name
			if wantName == "" {
				wantName = st
			}
			isRend := true
			wantDefault := spec.IsDefault
			if !userDefault {
				// the first rendition in track order is the default one; an audio-only muxer with
				// several tracks lists its leading track as a rendition too
				firstRend := -1
				for k, tr := range cfg.Tracks {
					if k != lead || (!cfg.Tracks[lead].IsVideo() && len(cfg.Tracks) > 1 && !tr.IsVideo()) {
						firstRend = k
						break
					}
				}
				wantDefault = ti == firstRend
			}
			if isRend && (got.Name != wantName || got.Language != spec.Language || got.IsDefault != wantDefault) {
				res.violation = fmt.Sprintf("rendition track %d reported as name=%q lang=%q default=%v, the muxer advertised name=%q lang=%q default=%v", ci, got.Name, got.Language, got.IsDefault, wantName, spec.Language, wantDefault)
				return res
			}
		}
		// ---- delivered units are a run of the written ones ----
		del := r.Units[ci]
		if len(del) == 0 {
			continue
		}
		pos := -1
		for k := range units[ti] {
			if equalData(clientData(cfg, units[ti][k]), del[0].Data) {
				pos = k
				break
			}
		}
		if pos < 0 {
			desc := ""
			for _, u := range units[ti] {
				cd := clientData(cfg, u)
				last := del[0].Data[len(del[0].Data)-1]
				if len(cd) > 0 && len(last) > 8 && bytes.Contains(cd[len(cd)-1], last[1:8]) {
					desc = fmt.Sprintf("; the written unit with the same last element has %d elements %x, the delivered one %d elements %x", len(cd), cd, len(del[0].Data), del[0].Data)
					break
				}
			}
			if len(units[ti]) > 0 {
				desc += fmt.Sprintf("; model holds %d units of the track, ops %d..%d, %d segments complete", len(units[ti]), units[ti][0].Op, units[ti][len(units[ti])-1].Op, len(model.Segs))
			}
			res.violation = fmt.Sprintf("track %d (%s): the first delivered unit (%x..) is not a written unit%s", ci, spec.Codec, head(del[0].Data), desc)
			return res
		}
		rate := int64(wantRate)
		for k, g := range del {
			// find the written unit: the next one (no gap) or, for Low-Latency, a later one
			found := -1
			for j := pos; j < len(units[ti]) && j < pos+400; j++ {
				if equalData(clientData(cfg, units[ti][j]), g.Data) {
					found = j
					break
				}
				if cfg.Variant != mux.VariantLL {
					break
				}
			}
			if found < 0 {
				res.violation = fmt.Sprintf("track %d (%s): delivery %d (%x..) is not the written unit that follows the previous delivery (written index %d): lost, repeated, reordered or invented unit", ci, spec.Codec, k, head(g.Data), pos)
				return res
			}
			w := units[ti][found]
			pos = found + 1
			// normalised time
			var wd, wp int64
			if cfg.Variant == mux.VariantMPEGTS {
				wd = w.DTS * 90000 / int64(spec.ClockRate())
				wp = (w.DTS + w.PTSOff) * 90000 / int64(spec.ClockRate())
			} else {
				wd, wp = w.DTS, w.DTS+w.PTSOff
			}
			if ti == lead && originLead < 0 {
				originLead = wd
			}
			if originLead < 0 {
				// leading track delivered nothing yet in our iteration order: take it from the leading deliveries
				continue
			}
			o := originLead
			if cfg.Variant != mux.VariantMPEGTS {
				o = mulDivTrunc(originLead, rate, leadRate)
			}
			if (!g.NoDTS && abs64(g.DTS-(wd-o)) > 1) || abs64(g.PTS-(wp-o)) > 1 {
				res.violation = fmt.Sprintf("track %d (%s): unit written with dts/pts %d/%d delivered as %d/%d, expected %d/%d (origin %d)", ci, spec.Codec, wd, wp, g.DTS, g.PTS, wd-o, wp-o, o)
				return res
			}
			if g.AbsOK {
				// NTP written with the first unit of the unit's segment + DTS distance between the two
				sg := segOf[ti][found]
				if core.Open("F21") && !c09NoExclusions && stepUpTo[sg] && (cfg.Variant == mux.VariantLL || ti != lead) {
					// open finding F21: once the written NTP has been stepped, only the leading track of
					// the non-Low-Latency variants is anchored on the unit's own segment
					res.excluded++
					res.delivered++
					continue
				}
				res.absChecks++
				dist := big.NewRat(w.DTS, int64(spec.ClockRate()))
				dist.Sub(dist, big.NewRat(sg.StartTicks, sg.Rate))
				dist.Mul(dist, big.NewRat(1_000_000_000, 1))
				ns, _ := new(big.Float).SetRat(dist).Int64()
				want := sg.NTP.Add(time.Duration(ns))
				d := g.Abs.Sub(want)
				if d < -3*time.Millisecond || d > 3*time.Millisecond {
					res.violation = fmt.Sprintf("track %d (%s): unit written with NTP %s in segment %d (first unit written with NTP %s, %v earlier in decode time) has AbsoluteTime %s, expected %s", ci, spec.Codec,
						w.NTP.Format(time.RFC3339Nano), sg.ID, sg.NTP.Format(time.RFC3339Nano), time.Duration(ns), g.Abs.Format(time.RFC3339Nano), want.Format(time.RFC3339Nano))
					return res
				}
			}
			res.delivered++
		}
	}
	return res
}

func execC09(sc c09Scenario) core.Outcome {
	var o core.Outcome
	results := make([]c09Result, len(sc.Runs))
	var wg sync.WaitGroup
	for i := range sc.Runs {
		wg.Add(1)
		go func(i int) {
			defer wg.Done()
			results[i] = runC09One(sc.Runs[i])
		}(i)
	}
	wg.Wait()
	total := 0
	for i, r := range results {
		o.Labels = append(o.Labels, r.labels...)
		total += r.delivered
		if r.violation != "" && o.Violation == "" {
			o.Violation = fmt.Sprintf("run %d: %s", i, r.violation)
		}
		o.Excluded += r.excluded
		core.AddExtra("C09", "absolute_time_comparisons", r.absChecks)
		core.AddExtra("C09", "muxer_client_runs", 1)
		core.AddExtra("C09", "units_delivered_and_matched", r.delivered)
	}
	o.NonTrivial = total > 100
	_ = bytes.Equal
	return o
}

var propC09 = core.Prop[c09Scenario]{
	ID: "C09", CrashLog: true,
	Rule: "each case runs 6 Muxer->Client pairs concurrently: variant x track set (video none/H264/H265/VP9/AV1, 0-2 audio AAC/Opus, any order, names/languages/default flags; MPEG-TS limited as Start demands) x entry URL (multivariant or leading media playlist) x SegmentMinDuration 0.5-0.8 s x 10-50 fps; writes paced in real time, the client attaches after 3-5 completed segments through an in-process transport calling Muxer.Handle and runs for 3-4 more segments; " +
		"oracle: reported tracks (codec, clock rate, rendition name/language/default), every delivered unit is the written unit that follows the previous delivery (byte-identical, no repeat/reorder; no gaps except in Low-Latency), dts/pts = written - first delivered leading DTS (+-1 tick), AbsoluteTime = written NTP +-3 ms; non-trivial = more than 100 units delivered and matched in the case",
	Draw: drawC09,
	Exec: execC09,
}

func TestC09(t *testing.T) { core.Run(t, propC09) }

// codecParamDiff compares the codec the muxer was given with the one the client reports.
func codecParamDiff(want, got codecs.Codec) string {
	switch w := want.(type) {
	case *codecs.AV1:
		g, ok := got.(*codecs.AV1)
		if !ok {
			return fmt.Sprintf("type %T != %T", got, want)
		}
		if !bytes.Equal(mux.NormAV1(w.SequenceHeader), mux.NormAV1(g.SequenceHeader)) {
			return fmt.Sprintf("sequence header %x != %x", g.SequenceHeader, w.SequenceHeader)
		}
		return ""
	}
	if !reflect.DeepEqual(want, got) {
		return fmt.Sprintf("%+v != %+v", got, want)
	}
	return ""
}

// TestKnownF21 reproduces open finding F21: a Low-Latency stream whose written NTP is stepped by
// +500 ms at a segment boundary; the units of that segment, delivered from parts while it is open,
// get an AbsoluteTime extrapolated from the previous segment.
func TestKnownF21(t *testing.T) {
	cfg := mux.Config{Variant: mux.VariantLL, Tracks: []mux.TrackSpec{{Codec: "h264"}}, SegmentCount: 7, SegmentMinDuration: 599e6, PartMinDuration: 100e6}
	one := c09One{Entry: "media", AttachAfter: 3}
	const frame = 3600 // 25 fps
	base := int64(1_577_836_800_000_000_000)
	for k := 0; k < 21*7; k++ {
		op := mux.Op{Track: 0, TS: int64(k) * frame, Size: 12, Kind: mux.KindInter}
		if k%7 == 0 {
			op.Kind = mux.KindRA
			op.InBand = 1
		}
		op.NTP = base + int64(k)*40_000_000
		if k >= 21*5 {
			op.NTP += 500_000_000 // the clock is stepped at the start of the sixth segment
		}
		one.Script.Ops = append(one.Script.Ops, op)
		one.PaceNS = append(one.PaceNS, int64(k)*40_000_000)
	}
	one.Script.Config = cfg
	c09NoExclusions = true
	defer func() { c09NoExclusions = false }()
	r := runC09One(one)
	if strings.Contains(r.violation, "has AbsoluteTime") {
		fmt.Println("STILL-REPRODUCES F21:", r.violation)
		return
	}
	fmt.Printf("F21 does not reproduce: violation=%q delivered=%d\n", r.violation, r.delivered)
}
