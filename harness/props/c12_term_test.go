package props

import (
	"context"
	"errors"
	"fmt"
	"io"
	"strings"
	"testing"
	"time"

	gohlslib "github.com/bluenviron/gohlslib/v2"
	"pgregory.net/rapid"

	"verifharness/cli"
	"verifharness/core"
)

// ---- C12: the client always terminates cleanly: one error, no leaked goroutines ----

type c12Scenario struct {
	Stream      cli.StreamDef `json:"stream"`
	Entry       string        `json:"entry"`
	Inject      string        `json:"inject"` // close-at-request | close-in-ontracks | close-after-units | close-after-wait | fault | ontracks-error | none
	At          int           `json:"at"`     // request index / unit count
	FaultKind   string        `json:"fault_kind,omitempty"`
	CloseCalls  int           `json:"close_calls"`
	AlsoCloseAt int           `json:"also_close_at"`      // with a fault: additionally close at this request (-1: no)
	ErrKind     string        `json:"err_kind,omitempty"` // plain | ctx-canceled | deadline | eof : what OnTracks / the transport returns
	Shape       string        `json:"shape,omitempty"`    // "" | many-samples | ll-hint-stall
	// fault-on: a fault on the nth request of a kind of resource (rather than on a request index)
	FaultOn  string `json:"fault_on,omitempty"` // lead_seg | lead_init | lead.m3u8 | rend0_seg | rend0.m3u8 | rend0_init | index.m3u8
	FaultNth int    `json:"fault_nth,omitempty"`
	// FaultAfter: the faulty answer is held back until another stream has requested this
	FaultAfter string `json:"fault_after,omitempty"`
}

var errOnTracks = errors.New("harness: OnTracks refuses the tracks")

func errOfKind(kind, what string) error {
	switch kind {
	case "ctx-canceled":
		return fmt.Errorf("%s: %w", what, context.Canceled)
	case "deadline":
		return fmt.Errorf("%s: %w", what, context.DeadlineExceeded)
	case "eof":
		return fmt.Errorf("%s: %w", what, io.EOF)
	}
	return fmt.Errorf("%s", what)
}

func drawC12(t *rapid.T) c12Scenario {
	sc := c12Scenario{Stream: drawStream(t), AlsoCloseAt: -1}
	sc.Entry = "lead"
	if sc.Stream.Multi {
		sc.Entry = "multi"
	}
	sc.Inject = rapid.SampledFrom([]string{"close-at-request", "close-at-request", "close-in-ontracks", "close-after-units", "close-after-units", "close-after-wait", "fault", "fault", "fault", "fault-on", "fault-on", "ontracks-error", "none"}).Draw(t, "inject")
	sc.CloseCalls = rapid.IntRange(1, 3).Draw(t, "closeCalls")
	sc.ErrKind = rapid.SampledFrom([]string{"plain", "plain", "ctx-canceled", "deadline", "eof"}).Draw(t, "errKind")
	switch rapid.IntRange(0, 9).Draw(t, "shape") {
	case 0, 1:
		// MPEG-TS segments with far more samples than the per-track sample queue holds
		sc.Shape = "many-samples"
		var sd cli.StreamDef
		sd.Container = "mpegts"
		sd.VOD = true
		sd.Lead.Tracks = []cli.TrackDef{{Codec: "h264", TimeScale: 90000, SampleDur: 90}}
		if rapid.Bool().Draw(t, "msAudio") {
			sd.Lead.Tracks = append(sd.Lead.Tracks, cli.TrackDef{Codec: "aac", TimeScale: 90000, SampleDur: 90})
		}
		for i := 0; i < 3; i++ {
			sg := cli.SegShape{Date: true}
			for range sd.Lead.Tracks {
				sg.Frags = append(sg.Frags, []int{rapid.IntRange(120, 260).Draw(t, "msCount")})
			}
			sd.Lead.Segs = append(sd.Lead.Segs, sg)
		}
		sc.Stream = sd
		sc.Entry = "lead"
	case 2:
		sc.Shape = "ll-hint-stall"
	case 3:
		// MPEG-TS whose last segment ends with an audio frame that does not decode: the demuxer
		// reports it through OnDecodeError (a slow callback here) right before the stream ends
		sc.Shape = "ts-bad-adts"
		var sd cli.StreamDef
		sd.Container = "mpegts"
		sd.VOD = true
		sd.Lead.Tracks = []cli.TrackDef{{Codec: "h264", TimeScale: 90000, SampleDur: 900}, {Codec: "aac", TimeScale: 90000, SampleDur: 900}}
		for i := 0; i < 3; i++ {
			sd.Lead.Segs = append(sd.Lead.Segs, cli.SegShape{Date: true, Frags: [][]int{{3}, {4}}})
		}
		sc.Stream = sd
		sc.Entry = "lead"
	}
	switch sc.Inject {
	case "close-at-request":
		sc.At = rapid.IntRange(0, 14).Draw(t, "atReq")
	case "close-after-units":
		sc.At = rapid.IntRange(1, 12).Draw(t, "atUnit")
	case "fault-on":
		sc.FaultOn = rapid.SampledFrom([]string{"lead_seg", "lead_seg", "lead_init", "lead.m3u8", "rend0_seg", "rend0.m3u8", "rend0_init", "index.m3u8"}).Draw(t, "faultOn")
		sc.FaultNth = rapid.SampledFrom([]int{0, 0, 0, 1, 2}).Draw(t, "faultNth")
		sc.FaultKind = rapid.SampledFrom([]string{"status404", "status500", "neterr"}).Draw(t, "faultKind2")
		if strings.HasPrefix(sc.FaultOn, "lead") {
			sc.FaultAfter = rapid.SampledFrom([]string{"", "rend0_seg", "rend0_seg", "rend0_init"}).Draw(t, "faultAfter")
		} else if strings.HasPrefix(sc.FaultOn, "rend") {
			sc.FaultAfter = rapid.SampledFrom([]string{"", "lead_seg", "lead_init"}).Draw(t, "faultAfter2")
		}
	case "fault":
		sc.At = rapid.IntRange(0, 14).Draw(t, "faultAt")
		sc.FaultKind = rapid.SampledFrom([]string{"status404", "status500", "neterr", "stall", "truncate"}).Draw(t, "faultKind")
		if rapid.IntRange(0, 3).Draw(t, "alsoClose") == 0 {
			sc.AlsoCloseAt = rapid.IntRange(0, 14).Draw(t, "alsoCloseAt")
		}
	}
	return sc
}

func execC12(sc c12Scenario) core.Outcome {
	var o core.Outcome
	if sc.Shape == "ll-hint-stall" {
		return execC12HintStall(sc)
	}
	b, err := cli.Build(sc.Stream)
	if err != nil {
		o.Skip = true
		return o
	}
	if sc.Shape == "ts-bad-adts" {
		u := b.Lead.SegURIs[len(b.Lead.SegURIs)-1]
		for _, nth := range []int{3, 2} { // the last audio frames of the last segment
			if c, ok := breakADTS(b.Files[u], nth); ok {
				b.Files[u] = c
			}
		}
	}
	srv := serveStatic(b)
	srv.TransportErr = errOfKind(sc.ErrKind, "injected transport error")
	onTracksErr := errOfKind(sc.ErrKind, errOnTracks.Error())
	uri := "http://stream.test/lead.m3u8"
	if sc.Entry == "multi" {
		uri = "http://stream.test/index.m3u8"
	}
	opts := cli.RunOpts{URI: uri, Server: srv, CloseAtRequest: -1, CloseCalls: sc.CloseCalls, MaxWait: 8 * time.Second}
	if sc.Shape == "ts-bad-adts" {
		opts.DecodeErrDelay = 60 * time.Millisecond
	}
	label := sc.Inject
	if sc.Shape != "" {
		o.Labels = append(o.Labels, "shape:"+sc.Shape)
	}
	o.Labels = append(o.Labels, "errkind:"+sc.ErrKind)
	switch sc.Inject {
	case "close-at-request":
		opts.CloseAtRequest = sc.At
	case "close-in-ontracks":
		opts.CloseInOnTracks = true
	case "close-after-units":
		opts.CloseAfterUnits = sc.At
	case "close-after-wait":
		opts.CloseAfterWait = true
	case "fault-on":
		srv.AddURLFaultAfter(sc.FaultOn, sc.FaultNth, sc.FaultKind, sc.FaultAfter)
		label += ":" + sc.FaultOn + ":" + sc.FaultKind
	case "fault":
		srv.AddFault(cli.Fault{AtReq: sc.At, Kind: sc.FaultKind})
		label += ":" + sc.FaultKind
		if sc.FaultKind == "stall" {
			opts.MaxWait = 1500 * time.Millisecond
		}
		if sc.AlsoCloseAt >= 0 {
			opts.CloseAtRequest = sc.AlsoCloseAt
		}
	case "ontracks-error":
		opts.OnTracksErr = onTracksErr
	}
	r := cli.RunClient(opts)
	o.Labels = append(o.Labels, "inject:"+label, "container:"+sc.Stream.Container)
	if r.StartErr != nil {
		return fail(o, "Start: %v", r.StartErr)
	}
	nreq := len(r.Requests)
	// did the injection actually land?
	landed := false
	switch sc.Inject {
	case "close-at-request":
		landed = nreq > sc.At
	case "close-in-ontracks", "ontracks-error":
		landed = r.OnTracksCalls > 0
	case "close-after-units":
		total := 0
		for _, u := range r.Units {
			total += len(u)
		}
		landed = total >= sc.At
	case "fault":
		landed = nreq > sc.At
	case "fault-on":
		landed = srv.URLFaultsHit()
	case "close-after-wait":
		landed = true
	}
	o.NonTrivial = landed && (r.OnTracksCalls > 0 || sc.At >= 1 || sc.Inject == "fault-on")
	if landed {
		o.Labels = append(o.Labels, "landed")
	}

	if strings.HasPrefix(fmt.Sprint(r.WaitErr), "HARNESS:") {
		return fail(o, "Wait() yields nothing even after Close (%s at %d); requests %v", label, sc.At, reqURLs(r.Requests))
	}
	if r.CloseHung {
		return fail(o, "Close() did not return within 5 s (%s at %d); requests %v", label, sc.At, reqURLs(r.Requests))
	}
	if r.WaitErr == nil {
		return fail(o, "Wait() yielded a nil error (%s)", label)
	}
	if r.SecondValue {
		return fail(o, "a second value was received from Wait() (%s)", label)
	}
	isEOS := errors.Is(r.WaitErr, gohlslib.ErrClientEOS)
	closedByHarness := !r.WaitReturned // MaxWait expired and the harness closed the client
	switch sc.Inject {
	case "none", "close-after-wait":
		if !isEOS {
			return fail(o, "undisturbed client ended with %q instead of ErrClientEOS", r.WaitErr)
		}
	case "ontracks-error":
		if landed && (r.WaitErr == nil || !r.WaitReturned || !strings.Contains(r.WaitErr.Error(), errOnTracks.Error())) {
			return fail(o, "OnTracks returned an error but Wait() yielded %q", r.WaitErr)
		}
	case "fault", "fault-on":
		if landed && sc.AlsoCloseAt < 0 {
			switch sc.FaultKind {
			case "status404", "status500":
				code := "404"
				if sc.FaultKind == "status500" {
					code = "500"
				}
				if closedByHarness {
					return fail(o, "a request (%s) was answered status %s but Wait() yielded nothing for %v, until the harness closed the client (then %q); requests %v", label, code, opts.MaxWait, r.WaitErr, reqURLs(r.Requests))
				}
				if isEOS || !strings.Contains(r.WaitErr.Error(), code) {
					return fail(o, "request %d answered status %s but Wait() yielded %q; requests %v", sc.At, code, r.WaitErr, reqURLs(r.Requests))
				}
			case "neterr":
				if closedByHarness {
					return fail(o, "a request (%s) failed with a transport error but Wait() yielded nothing for %v, until the harness closed the client (then %q)", label, opts.MaxWait, r.WaitErr)
				}
				if isEOS || !strings.Contains(r.WaitErr.Error(), "injected transport error") {
					return fail(o, "request %d failed with a transport error but Wait() yielded %q", sc.At, r.WaitErr)
				}
			case "stall":
				if !closedByHarness || isEOS {
					// the download never completes: the client can only end through Close
					return fail(o, "request %d stalls forever but Wait() yielded %q on its own", sc.At, r.WaitErr)
				}
			case "truncate":
				if closedByHarness {
					return fail(o, "truncated response at request %d: the client neither failed nor finished within %v", sc.At, opts.MaxWait)
				}
			}
		}
	case "close-at-request", "close-in-ontracks", "close-after-units":
		if closedByHarness {
			return fail(o, "Close (%s at %d) was called but Wait() yielded nothing within %v", label, sc.At, opts.MaxWait)
		}
		if !landed && !isEOS {
			return fail(o, "undisturbed client ended with %q instead of ErrClientEOS", r.WaitErr)
		}
	}
	if r.CallbacksAfter > 0 {
		return fail(o, "%d user callbacks were invoked after Wait() yielded %q (%s)", r.CallbacksAfter, r.WaitErr, label)
	}
	if len(r.Leaked) > 0 {
		return fail(o, "client goroutines still alive 3 s after Wait() yielded %q (%s at %d): %v", r.WaitErr, label, sc.At, r.Leaked)
	}
	return o
}

var propC12 = core.Prop[c12Scenario]{
	ID: "C12", CrashLog: true,
	Rule: "a C10 stream plus one injection: Close (1-3 calls) when the server sees request #n (before it is answered), inside OnTracks, inside the n-th data callback, or after EOS; a fault at request #n (404, 500, transport error, body that stalls until cancelled, truncated body), optionally with a Close as well; OnTracks returning an error; " +
		"oracle: exactly one value from Wait(), of the right kind (OnTracks error / status / transport error surfaced, EOS when undisturbed, termination after Close), no user callback afterwards, no client goroutine left (goroutine dump polled for 3 s); non-trivial = the injection landed while the pipeline was running",
	Draw: drawC12,
	Exec: execC12,
}

func TestC12(t *testing.T) { core.Run(t, propC12) }

// execC12HintStall: a Low-Latency stream whose preload-hint request is held by the server;
// Close must still end the client.
func execC12HintStall(sc c12Scenario) core.Outcome {
	var o core.Outcome
	var sd cli.StreamDef
	sd.Container = "fmp4"
	pl := cli.PlaylistDef{Tracks: []cli.TrackDef{{Codec: "h264", TimeScale: 90000, SampleDur: 900}}}
	for i := 0; i < 6; i++ {
		pl.Segs = append(pl.Segs, cli.SegShape{Frags: [][]int{{1}}, Date: true})
	}
	sd.Lead = pl
	b, err := cli.Build(sd)
	if err != nil {
		o.Skip = true
		return o
	}
	srv := cli.NewServer()
	for p, f := range b.Files {
		srv.AddFile(p, f)
	}
	extra := []string{"#EXT-X-SERVER-CONTROL:CAN-BLOCK-RELOAD=YES,PART-HOLD-BACK=0.3", "#EXT-X-PART-INF:PART-TARGET=0.1"}
	var snaps []string
	for k := 0; k < 3; k++ {
		txt := cli.MediaPlaylistText(b.Lead, "fmp4", 0, 0, 3+k, false, false, extra)
		txt += fmt.Sprintf("#EXT-X-PRELOAD-HINT:TYPE=PART,URI=\"%s\"\n", b.Lead.SegURIs[3+k])
		snaps = append(snaps, txt)
	}
	srv.AddPlaylist("lead.m3u8", snaps...)
	// requests: playlist, init, hint0, playlist, hint1, ... : stall the n-th hint
	stallAt := 2 + 2*(sc.At%3)
	srv.AddFault(cli.Fault{AtReq: stallAt, Kind: "stall"})
	r := cli.RunClient(cli.RunOpts{URI: "http://stream.test/lead.m3u8", Server: srv, CloseAtRequest: -1, CloseCalls: sc.CloseCalls, MaxWait: 1200 * time.Millisecond})
	o.Labels = append(o.Labels, "shape:ll-hint-stall", "inject:stall-on-preload-hint")
	o.NonTrivial = len(r.Requests) > stallAt
	if strings.HasPrefix(fmt.Sprint(r.WaitErr), "HARNESS:") {
		return fail(o, "a preload-hint request is held by the server: Wait() yields nothing even 10 s after Close; requests %v", reqURLs(r.Requests))
	}
	if r.WaitReturned && len(r.Requests) > stallAt {
		return fail(o, "the preload-hint request stalls forever but Wait() yielded %q on its own", r.WaitErr)
	}
	if r.SecondValue {
		return fail(o, "a second value was received from Wait()")
	}
	if r.CallbacksAfter > 0 {
		return fail(o, "%d user callbacks after Wait() yielded", r.CallbacksAfter)
	}
	if len(r.Leaked) > 0 {
		return fail(o, "client goroutines still alive 3 s after Wait() yielded %q: %v", r.WaitErr, r.Leaked)
	}
	return o
}
