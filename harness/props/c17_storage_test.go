package props

import (
	"bytes"
	"fmt"
	"io"
	"os"
	"path/filepath"
	"testing"

	"github.com/bluenviron/gohlslib/v2/pkg/storage"
	"pgregory.net/rapid"

	"verifharness/core"
)

// ---- scenario ---------------------------------------------------------------------------

type stOp struct {
	K string `json:"k"` // "w" write, "ss" seek from start, "sc" seek from current
	D []byte `json:"d,omitempty"`
	O int64  `json:"o,omitempty"`
}

type stPart struct {
	Ops        []stOp `json:"ops"`
	EarlyRead  bool   `json:"early_read"`  // open+read a part reader right after the part was written
	KeepReader bool   `json:"keep_reader"` // open a reader before Finalize, use it after Remove
}

type stScenario struct {
	Parts       []stPart `json:"parts"`
	FileBufs    []int    `json:"file_bufs"`    // buffer sizes cycled through while reading the file
	PartBufs    []int    `json:"part_bufs"`    // same for part readers after Finalize
	KeepFileRd  bool     `json:"keep_file_rd"` // open a file reader before Remove, use it after
	ReadersPost int      `json:"readers_post"` // number of independent file readers opened after Finalize
	// Neighbour: sizes of the parts written to a second file of the same factory after the first
	// one was finalized (files of several streams coexist in a muxer); the first file's readers
	// must not notice
	Neighbour []int `json:"neighbour,omitempty"`
	// Stale: a file of that many bytes with the same name already exists in the directory (disk)
	Stale int `json:"stale,omitempty"`
}

func drawStorage(t *rapid.T) stScenario {
	var sc stScenario
	nParts := rapid.IntRange(0, 6).Draw(t, "nparts")
	for i := 0; i < nParts; i++ {
		var p stPart
		nOps := rapid.IntRange(0, 12).Draw(t, "nops")
		length, pos := int64(0), int64(0)
		pendingBeyond := false
		for j := 0; j < nOps; j++ {
			kind := rapid.SampledFrom([]string{"w", "w", "w", "ss", "sc"}).Draw(t, "kind")
			if pendingBeyond {
				kind = "w"
			}
			switch kind {
			case "w":
				min := 0
				if pendingBeyond {
					min = 1
				}
				d := rapid.SliceOfN(rapid.Byte(), min, 200).Draw(t, "data")
				p.Ops = append(p.Ops, stOp{K: "w", D: d})
				pos += int64(len(d))
				if pos > length {
					length = pos
				}
				pendingBeyond = false
			case "ss":
				max := length
				if rapid.IntRange(0, 9).Draw(t, "beyond") == 0 {
					max = length + 40
				}
				o := rapid.Int64Range(0, max).Draw(t, "off")
				p.Ops = append(p.Ops, stOp{K: "ss", O: o})
				pos = o
				pendingBeyond = pos > length
			case "sc":
				max := length - pos
				if rapid.IntRange(0, 9).Draw(t, "beyond") == 0 {
					max += 40
				}
				o := rapid.Int64Range(-pos, max).Draw(t, "delta")
				p.Ops = append(p.Ops, stOp{K: "sc", O: o})
				pos += o
				pendingBeyond = pos > length
			}
		}
		if pendingBeyond {
			// a seek past the end must be followed by a non-empty write (§2.9)
			p.Ops = append(p.Ops, stOp{K: "w", D: []byte{0xEE}})
		}
		p.EarlyRead = rapid.Bool().Draw(t, "early")
		p.KeepReader = rapid.Bool().Draw(t, "keep")
		sc.Parts = append(sc.Parts, p)
	}
	bufGen := rapid.OneOf(
		rapid.IntRange(0, 8),
		rapid.IntRange(1, 300),
		rapid.SampledFrom([]int{1, 2, 199, 200, 201, 512, 4096, 65536}),
	)
	sc.FileBufs = rapid.SliceOfN(bufGen, 1, 5).Draw(t, "filebufs")
	sc.PartBufs = rapid.SliceOfN(bufGen, 1, 3).Draw(t, "partbufs")
	sc.KeepFileRd = rapid.Bool().Draw(t, "keepfile")
	sc.ReadersPost = rapid.IntRange(1, 2).Draw(t, "readers")
	if rapid.IntRange(0, 3).Draw(t, "stale") == 0 {
		sc.Stale = rapid.IntRange(1, 3000).Draw(t, "staleBytes")
	}
	if rapid.Bool().Draw(t, "neighbour") {
		sc.Neighbour = rapid.SliceOfN(rapid.IntRange(0, 260), 1, 6).Draw(t, "neighbourSizes")
	}
	return sc
}

// ---- model ------------------------------------------------------------------------------

type stModelPart struct {
	buf []byte
	pos int64
}

func (m *stModelPart) apply(op stOp) {
	switch op.K {
	case "w":
		end := m.pos + int64(len(op.D))
		if m.pos > int64(len(m.buf)) {
			m.buf = append(m.buf, make([]byte, m.pos-int64(len(m.buf)))...)
		}
		if end > int64(len(m.buf)) {
			m.buf = append(m.buf, make([]byte, end-int64(len(m.buf)))...)
		}
		copy(m.buf[m.pos:end], op.D)
		m.pos = end
	case "ss":
		m.pos = op.O
	case "sc":
		m.pos += op.O
	}
}

// ---- execution --------------------------------------------------------------------------

// readAllWith reads r to EOF cycling through buffer sizes. A zero-sized read must
// return 0 bytes and must not disturb the stream.
func readAllWith(r io.Reader, bufs []int, limit int) ([]byte, error) {
	var out []byte
	allZero := true
	for _, b := range bufs {
		if b != 0 {
			allZero = false
		}
	}
	if allZero {
		// only empty buffers: progress is made with a one byte buffer after them
		bufs = append(append([]int{}, bufs...), 1)
	}
	stall := 0
	for i := 0; i < 4*limit+64; i++ {
		sz := bufs[i%len(bufs)]
		p := make([]byte, sz)
		n, err := r.Read(p)
		if n < 0 || n > sz {
			return out, fmt.Errorf("Read returned n=%d for a buffer of %d", n, sz)
		}
		out = append(out, p[:n]...)
		if len(out) > limit {
			return out, fmt.Errorf("reader returned more than %d bytes", limit)
		}
		if err == io.EOF {
			return out, nil
		}
		if err != nil {
			return out, err
		}
		if sz > 0 && n == 0 {
			stall++
			if stall > 100 {
				return out, fmt.Errorf("reader makes no progress")
			}
		} else if n > 0 {
			stall = 0
		}
	}
	return out, fmt.Errorf("reader did not reach EOF")
}

func runStorageOn(kind string, sc stScenario) (string, bool) {
	var factory storage.Factory
	var dir string
	fname := "f.bin"
	if kind == "disk" {
		base := os.Getenv("VERIF_TMP")
		if base == "" {
			base = os.TempDir()
		}
		var err error
		dir, err = os.MkdirTemp(base, "st")
		if err != nil {
			return "harness: " + err.Error(), false
		}
		defer os.RemoveAll(dir)
		if sc.Stale > 0 {
			if err := os.WriteFile(filepath.Join(dir, fname), bytes.Repeat([]byte{0x5a}, sc.Stale), 0o644); err != nil {
				return "harness: " + err.Error(), false
			}
		}
		factory = storage.NewFactoryDisk(dir)
	} else {
		factory = storage.NewFactoryRAM()
	}

	f, err := factory.NewFile(fname)
	if err != nil {
		return fmt.Sprintf("%s: NewFile: %v", kind, err), false
	}

	models := make([]*stModelPart, 0, len(sc.Parts))
	parts := make([]storage.Part, 0, len(sc.Parts))
	kept := map[int]io.ReadCloser{}
	total := 0
	limit := 1 << 16

	checkPart := func(stage string, i int, bufs []int) string {
		r, err := parts[i].Reader()
		if err != nil {
			return fmt.Sprintf("%s: %s: part %d Reader(): %v", kind, stage, i, err)
		}
		got, err := readAllWith(r, bufs, limit)
		r.Close()
		if err != nil {
			return fmt.Sprintf("%s: %s: part %d read: %v", kind, stage, i, err)
		}
		if !bytes.Equal(got, models[i].buf) {
			return fmt.Sprintf("%s: %s: part %d returned %d bytes %x, written %d bytes %x", kind, stage, i, len(got), trunc(got), len(models[i].buf), trunc(models[i].buf))
		}
		return ""
	}

	for i, p := range sc.Parts {
		part := f.NewPart()
		parts = append(parts, part)
		m := &stModelPart{}
		models = append(models, m)
		w := part.Writer()
		for j, op := range p.Ops {
			switch op.K {
			case "w":
				n, err := w.Write(op.D)
				if err != nil || n != len(op.D) {
					return fmt.Sprintf("%s: part %d op %d Write(%d bytes) = %d, %v", kind, i, j, len(op.D), n, err), false
				}
			case "ss":
				n, err := w.Seek(op.O, io.SeekStart)
				if err != nil || n != op.O {
					return fmt.Sprintf("%s: part %d op %d Seek(%d, start) = %d, %v", kind, i, j, op.O, n, err), false
				}
			case "sc":
				n, err := w.Seek(op.O, io.SeekCurrent)
				if err != nil || n != m.pos+op.O {
					return fmt.Sprintf("%s: part %d op %d Seek(%d, current) = %d, %v; want %d", kind, i, j, op.O, n, err, m.pos+op.O), false
				}
			}
			m.apply(op)
		}
		total += len(m.buf)
		if p.EarlyRead {
			if v := checkPart("before Finalize", i, []int{64}); v != "" {
				return v, false
			}
			if i > 0 {
				if v := checkPart("before Finalize (previous part)", i-1, []int{7}); v != "" {
					return v, false
				}
			}
		}
		if p.KeepReader {
			r, err := part.Reader()
			if err != nil {
				return fmt.Sprintf("%s: part %d Reader() before Finalize: %v", kind, i, err), false
			}
			kept[i] = r
		}
		// the file cannot be read before Finalize
		if r, err := f.Reader(); err == nil {
			r.Close()
			return fmt.Sprintf("%s: File.Reader() succeeded before Finalize (after part %d)", kind, i), false
		}
	}
	if r, err := f.Reader(); err == nil {
		r.Close()
		return fmt.Sprintf("%s: File.Reader() succeeded before Finalize", kind), false
	}

	f.Finalize()

	// a second file of the same factory is written now
	var g storage.File
	var gParts []storage.Part
	var gWant [][]byte
	if len(sc.Neighbour) > 0 {
		g, err = factory.NewFile("g.bin")
		if err != nil {
			return fmt.Sprintf("%s: NewFile(g.bin): %v", kind, err), false
		}
		for k, n := range sc.Neighbour {
			pt := g.NewPart()
			d := bytes.Repeat([]byte{byte(0xA0 + k)}, n)
			if wn, err := pt.Writer().Write(d); err != nil || wn != n {
				return fmt.Sprintf("%s: neighbour file part %d Write(%d) = %d, %v", kind, k, n, wn, err), false
			}
			gParts = append(gParts, pt)
			gWant = append(gWant, d)
		}
	}
	checkNeighbour := func(stage string) string {
		for k, pt := range gParts {
			r, err := pt.Reader()
			if err != nil {
				return fmt.Sprintf("%s: %s: neighbour file part %d Reader(): %v", kind, stage, k, err)
			}
			got, err := readAllWith(r, []int{50}, limit)
			r.Close()
			if err != nil || !bytes.Equal(got, gWant[k]) {
				return fmt.Sprintf("%s: %s: neighbour file part %d returned %d bytes %x (err %v), written %d bytes of %#x", kind, stage, k, len(got), trunc(got), err, len(gWant[k]), 0xA0+k)
			}
		}
		return ""
	}
	if v := checkNeighbour("after the first file was finalized"); v != "" {
		return v, false
	}

	if got := f.Size(); got != uint64(total) {
		return fmt.Sprintf("%s: Size() = %d after Finalize, parts total %d", kind, got, total), false
	}
	for i := range parts {
		if v := checkPart("after Finalize", i, sc.PartBufs); v != "" {
			return v, false
		}
	}
	var want []byte
	for _, m := range models {
		want = append(want, m.buf...)
	}
	checkFile := func(stage string, r io.ReadCloser, bufs []int) string {
		got, err := readAllWith(r, bufs, limit)
		r.Close()
		if err != nil {
			return fmt.Sprintf("%s: %s: file read (bufs %v): %v", kind, stage, bufs, err)
		}
		if !bytes.Equal(got, want) {
			return fmt.Sprintf("%s: %s: file reader (bufs %v) returned %d bytes %x, want %d bytes %x", kind, stage, bufs, len(got), trunc(got), len(want), trunc(want))
		}
		return ""
	}
	for k := 0; k < sc.ReadersPost; k++ {
		r, err := f.Reader()
		if err != nil {
			return fmt.Sprintf("%s: File.Reader() after Finalize: %v", kind, err), false
		}
		bufs := sc.FileBufs
		if k == 1 {
			bufs = []int{len(want) + 1}
		}
		if v := checkFile("after Finalize", r, bufs); v != "" {
			return v, false
		}
	}
	var keptFile io.ReadCloser
	if sc.KeepFileRd {
		keptFile, err = f.Reader()
		if err != nil {
			return fmt.Sprintf("%s: File.Reader() after Finalize: %v", kind, err), false
		}
	}
	var keptPartPost io.ReadCloser
	if len(parts) > 0 && sc.KeepFileRd {
		keptPartPost, err = parts[len(parts)-1].Reader()
		if err != nil {
			return fmt.Sprintf("%s: part Reader() after Finalize: %v", kind, err), false
		}
	}
	if f.Size() != uint64(total) {
		return fmt.Sprintf("%s: Size() changed after reads", kind), false
	}

	f.Remove()

	if v := checkNeighbour("after the first file was removed"); v != "" {
		return v, false
	}
	if g != nil {
		g.Finalize()
		if v := checkNeighbour("after its own Finalize"); v != "" {
			return v, false
		}
		g.Remove()
	}
	if kind == "disk" {
		if _, err := os.Stat(filepath.Join(dir, fname)); !os.IsNotExist(err) {
			return fmt.Sprintf("disk: file still present after Remove (stat err=%v)", err), false
		}
		ents, _ := os.ReadDir(dir)
		if len(ents) != 0 {
			return fmt.Sprintf("disk: %d directory entries left after Remove", len(ents)), false
		}
	}
	// readers opened earlier stay usable after Remove
	for i, r := range kept {
		got, err := readAllWith(r, []int{33}, limit)
		r.Close()
		if err != nil || !bytes.Equal(got, models[i].buf) {
			return fmt.Sprintf("%s: part %d reader opened before Finalize, used after Remove: %d bytes, err %v; want %d bytes", kind, i, len(got), err, len(models[i].buf)), false
		}
	}
	if keptFile != nil {
		if v := checkFile("reader opened before Remove, used after", keptFile, sc.FileBufs); v != "" {
			return v, false
		}
	}
	if keptPartPost != nil {
		i := len(parts) - 1
		got, err := readAllWith(keptPartPost, []int{17}, limit)
		keptPartPost.Close()
		if err != nil || !bytes.Equal(got, models[i].buf) {
			return fmt.Sprintf("%s: part %d reader opened after Finalize, used after Remove: %d bytes, err %v; want %d bytes", kind, i, len(got), err, len(models[i].buf)), false
		}
	}
	return "", true
}

func trunc(b []byte) []byte {
	if len(b) > 48 {
		return b[:48]
	}
	return b
}

func execStorage(sc stScenario) core.Outcome {
	var o core.Outcome
	nonEmpty, backward, beyond, rewrites := 0, 0, 0, 0
	for _, p := range sc.Parts {
		m := &stModelPart{}
		for _, op := range p.Ops {
			before := m.pos
			m.apply(op)
			if op.K != "w" && m.pos < before {
				backward++
			}
			if op.K != "w" && m.pos > int64(len(m.buf)) {
				beyond++
			}
			if op.K == "w" && before < int64(len(m.buf)) && len(op.D) > 0 {
				rewrites++
			}
		}
		if len(m.buf) > 0 {
			nonEmpty++
		}
	}
	o.NonTrivial = nonEmpty >= 2 && backward >= 1
	o.Labels = append(o.Labels, fmt.Sprintf("parts=%d", len(sc.Parts)))
	if backward > 0 {
		o.Labels = append(o.Labels, "backward-seek")
	}
	if rewrites > 0 {
		o.Labels = append(o.Labels, "rewrite")
	}
	if beyond > 0 {
		o.Labels = append(o.Labels, "seek-beyond-end")
	}
	if nonEmpty < len(sc.Parts) {
		o.Labels = append(o.Labels, "has-empty-part")
	}
	if len(sc.Neighbour) > 0 {
		o.Labels = append(o.Labels, "neighbour-file")
	}
	if sc.Stale > 0 {
		o.Labels = append(o.Labels, "stale-file-with-the-same-name")
	}
	for _, b := range sc.FileBufs {
		if b == 0 {
			o.Labels = append(o.Labels, "zero-buffer")
			break
		}
	}
	for _, kind := range []string{"ram", "disk"} {
		if v, _ := runStorageOn(kind, sc); v != "" {
			o.Violation = v
			return o
		}
	}
	return o
}

var propC17 = core.Prop[stScenario]{
	ID: "C17",
	Rule: "rapid-generated sequences of 0-6 parts x 0-12 Write/Seek(start)/Seek(current) ops (one Writer per part, parts written in allocation order, " +
		"seek targets within [0,len] or past the end only when followed by a non-empty write), executed on RAM and disk storage against a byte-slice model; " +
		"non-trivial = at least two non-empty parts and at least one backward seek; distinct by scenario hash",
	Draw: drawStorage,
	Exec: execStorage,
}

func TestC17(t *testing.T) { core.Run(t, propC17) }
