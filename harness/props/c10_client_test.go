package props

import (
	"bytes"
	"encoding/json"
	"errors"
	"fmt"
	"os"
	"strings"
	"testing"
	"time"

	gohlslib "github.com/bluenviron/gohlslib/v2"
	"pgregory.net/rapid"

	"verifharness/cli"
	"verifharness/core"
)

// ---- C10: the client delivers every sample of a well-formed stream with normalised time ----

type c10Scenario struct {
	Stream cli.StreamDef `json:"stream"`
	Entry  string        `json:"entry"` // multi | lead
}

var fmp4Timescales = []int{90000, 48000, 44100, 30000, 12800, 1000, 24000, 15360}

func drawTrack(t *rapid.T, container string, video bool, label string) cli.TrackDef {
	var td cli.TrackDef
	if container == "mpegts" {
		td.TimeScale = 90000
		if video {
			td.Codec = "h264"
			td.SampleDur = rapid.SampledFrom([]int64{900, 1800, 3000, 3003, 1500}).Draw(t, label+"dur")
		} else {
			td.Codec = "aac"
			td.SampleDur = rapid.SampledFrom([]int64{2090, 1920, 960, 1800, 2880}).Draw(t, label+"dur")
		}
	} else {
		if video {
			td.Codec = rapid.SampledFrom([]string{"h264", "h264", "h265", "av1", "vp9"}).Draw(t, label+"codec")
			td.TimeScale = rapid.SampledFrom([]int{90000, 90000, 30000, 12800, 15360, 1000, 24000, 10_000_000}).Draw(t, label+"ts")
		} else {
			td.Codec = rapid.SampledFrom([]string{"aac", "aac", "opus"}).Draw(t, label+"codec")
			td.TimeScale = rapid.SampledFrom(fmp4Timescales).Draw(t, label+"ts")
		}
		// 8..30 ms per sample
		ms := rapid.IntRange(8, 30).Draw(t, label+"ms")
		td.SampleDur = int64(td.TimeScale) * int64(ms) / 1000
		if td.SampleDur < 1 {
			td.SampleDur = 1
		}
	}
	if video {
		switch rapid.IntRange(0, 3).Draw(t, label+"ptsmode") {
		case 1:
			// B-frame style offsets (first unit has the largest so that later ones are never before it)
			d := int(td.SampleDur)
			td.PTSOffs = []int{2 * d, 3 * d, 0, d}
		case 2:
			td.PTSOffs = []int{int(td.SampleDur)}
		}
	}
	return td
}

func drawStream(t *rapid.T) cli.StreamDef {
	var sd cli.StreamDef
	sd.Container = rapid.SampledFrom([]string{"fmp4", "fmp4", "mpegts"}).Draw(t, "container")
	sd.Multi = rapid.Bool().Draw(t, "multi")
	sd.VOD = rapid.Bool().Draw(t, "vod")
	nSeg := rapid.IntRange(3, 6).Draw(t, "nseg")
	hasVideo := rapid.IntRange(0, 5).Draw(t, "hasVideo") != 0
	nAudioLead := rapid.IntRange(0, 2).Draw(t, "nAudioLead")
	if !hasVideo && nAudioLead == 0 {
		nAudioLead = 1
	}
	if sd.Container == "mpegts" && nAudioLead > 1 {
		nAudioLead = 1
	}
	if hasVideo {
		sd.Lead.Tracks = append(sd.Lead.Tracks, drawTrack(t, sd.Container, true, "v"))
	}
	for i := 0; i < nAudioLead; i++ {
		a := drawTrack(t, sd.Container, false, fmt.Sprintf("a%d", i))
		// audio may start slightly before or after the video
		a.StartOff = int64(rapid.IntRange(-3, 3).Draw(t, "aoff")) * a.SampleDur / 2
		sd.Lead.Tracks = append(sd.Lead.Tracks, a)
	}
	if sd.Container == "mpegts" && rapid.IntRange(0, 3).Draw(t, "unsupported") == 0 {
		// tracks of codecs the client has no type for: they must be ignored
		x := rapid.SampledFrom([]string{"tsopus", "tsopus", "tsac3", "tsmp4v", "tsmp1v", "tsh265"}).Draw(t, "xcodec")
		xt := cli.TrackDef{Codec: x, TimeScale: 90000, SampleDur: 1800}
		if rapid.Bool().Draw(t, "xFirst") {
			// listed first in the PMT
			sd.Lead.Tracks = append([]cli.TrackDef{xt}, sd.Lead.Tracks...)
		} else {
			sd.Lead.Tracks = append(sd.Lead.Tracks, xt)
		}
	}
	if rapid.Bool().Draw(t, "audioFirst") && len(sd.Lead.Tracks) > 1 && sd.Container == "fmp4" {
		// video not first in the init
		sd.Lead.Tracks[0], sd.Lead.Tracks[len(sd.Lead.Tracks)-1] = sd.Lead.Tracks[len(sd.Lead.Tracks)-1], sd.Lead.Tracks[0]
	}
	datePolicy := rapid.SampledFrom([]string{"all", "all", "some", "none"}).Draw(t, "dates")
	dateSkew := rapid.IntRange(0, 3).Draw(t, "dateSkew") == 0
	shape := func(pl *cli.PlaylistDef, label string) {
		for s := 0; s < nSeg; s++ {
			var sg cli.SegShape
			manyFrags := sd.Container == "fmp4" && rapid.IntRange(0, 5).Draw(t, label+"manyFrags") == 0
			for ti := range pl.Tracks {
				nf := rapid.IntRange(1, 3).Draw(t, label+"nfrag")
				if manyFrags {
					// CMAF-chunk style: many fragments of one sample each
					nf = rapid.IntRange(4, 8).Draw(t, label+"nfragMany")
				}
				var fr []int
				for k := 0; k < nf; k++ {
					n := rapid.IntRange(1, 3).Draw(t, label+"nsamp")
					if manyFrags {
						n = 1
					}
					fr = append(fr, n)
				}
				_ = ti
				sg.Frags = append(sg.Frags, fr)
			}
			switch datePolicy {
			case "all":
				sg.Date = true
			case "some":
				sg.Date = rapid.Bool().Draw(t, label+"date")
			}
			if dateSkew && label == "L" && sg.Date {
				sg.DateSkewMs = rapid.SampledFrom([]int{0, 7, 20, -15, 120, 1000}).Draw(t, label+"skew") * (s + 1) / 2
			}
			pl.Segs = append(pl.Segs, sg)
		}
		pl.ByteRange = rapid.IntRange(0, 2).Draw(t, label+"byterange") == 0
		if pl.ByteRange && rapid.Bool().Draw(t, label+"dropOffsets") {
			pl.RangeDrop = rapid.IntRange(1, 1<<16-1).Draw(t, label+"rangeDrop")
		}
	}
	shape(&sd.Lead, "L")
	if sd.Multi {
		nr := rapid.IntRange(0, 3).Draw(t, "nrend")
		if sd.Container == "mpegts" {
			// MPEG-TS audio renditions (one AAC track each)
			nr = rapid.IntRange(0, 2).Draw(t, "nrendTS")
		}
		for i := 0; i < nr; i++ {
			r := cli.PlaylistDef{Name: fmt.Sprintf("aud%d", i), Language: rapid.SampledFrom([]string{"", "en", "de"}).Draw(t, "rlang"), Default: i == 0}
			a := drawTrack(t, sd.Container, false, fmt.Sprintf("r%d", i))
			a.StartOff = int64(rapid.IntRange(-2, 2).Draw(t, "roff")) * a.SampleDur / 2
			r.Tracks = []cli.TrackDef{a}
			shape(&r, fmt.Sprintf("R%d", i))
			sd.Renditions = append(sd.Renditions, r)
		}
	}
	if sd.Multi {
		sd.MuxedRendition = rapid.IntRange(0, 3).Draw(t, "muxedRendition") == 0
	}
	if sd.Container == "mpegts" {
		sd.BaseTicks = rapid.OneOf(
			rapid.Int64Range(0, 1<<33-1),
			rapid.Int64Range(1<<33-20000, 1<<33-1), // wraps inside the stream
			rapid.Just(int64(0)),
			rapid.Int64Range(1<<32-10000, 1<<32+10000),
		).Draw(t, "tsBase")
	} else {
		sd.BaseSec = rapid.OneOf(rapid.Just(int64(0)), rapid.Int64Range(0, 100), rapid.Int64Range(40000, 50000), rapid.Int64Range(1<<20, 1<<23)).Draw(t, "baseSec")
		sd.BaseTicks = rapid.Int64Range(0, 100000).Draw(t, "baseTicks")
		// the statement's base times go up to 2^40 ticks: keep a fine-grained (10 MHz) time scale
		// inside that range, and sometimes right below its end
		for _, tr := range sd.Lead.Tracks {
			if tr.TimeScale >= 1_000_000 && sd.BaseSec > (1<<40)/int64(tr.TimeScale)-10 {
				sd.BaseSec = rapid.SampledFrom([]int64{0, 100, 95000, 109000, (1<<40)/int64(tr.TimeScale) - 20}).Draw(t, "baseSecFine")
			}
		}
	}
	return sd
}

func drawC10(t *rapid.T) c10Scenario {
	sc := c10Scenario{Stream: drawStream(t)}
	sc.Entry = "lead"
	if sc.Stream.Multi {
		sc.Entry = "multi"
	}
	return sc
}

func mulDivTrunc(v, m, d int64) int64 {
	secs := v / d
	dec := v % d
	return secs*m + dec*m/d
}

// c10NoExclusions: the regression of known finding F21b runs without its exclusion.
var c10NoExclusions = false

type c10Stats struct {
	tracks, rates int
	wrap, bigBase bool
	units         int
	excluded      int // AbsoluteTime comparisons left out because of open finding F21
}

// checkDelivery compares what the client delivered with the stream (C10 oracle).
func checkDelivery(b *cli.Built, entry string, r *cli.RunResult, firstSeg func(bp *cli.BuiltPlaylist) int) (string, c10Stats) {
	var st c10Stats
	def := b.Def
	playlists := []*cli.BuiltPlaylist{b.Lead}
	if entry == "multi" {
		playlists = append(playlists, b.Renditions...)
	}
	lead := b.Lead
	s0 := firstSeg(lead)
	skewed := false
	for _, sg := range lead.Def.Segs {
		if sg.DateSkewMs != 0 {
			skewed = true
		}
	}
	leadRate := int64(90000)
	if def.Container == "fmp4" {
		leadRate = int64(lead.Def.Tracks[lead.LeadTrack].TimeScale)
	}
	origin := lead.LeadFirstDTS[s0]
	// expected track list
	type expTrack struct {
		bp *cli.BuiltPlaylist
		ti int
	}
	var exp []expTrack
	for _, bp := range playlists {
		for ti := range bp.Def.Tracks {
			if bp.Supported[ti] {
				exp = append(exp, expTrack{bp, ti})
			}
		}
	}
	if len(r.Tracks) != len(exp) {
		return fmt.Sprintf("client reported %d tracks, the stream has %d supported tracks (%+v)", len(r.Tracks), len(exp), r.Tracks), st
	}
	st.tracks = len(exp)
	rates := map[int64]bool{}
	for i, e := range exp {
		td := e.bp.Def.Tracks[e.ti]
		want := td.Codec
		rate := int64(90000)
		if def.Container == "fmp4" {
			rate = int64(td.TimeScale)
		}
		rates[rate] = true
		got := r.Tracks[i]
		if got.Codec != want {
			return fmt.Sprintf("track %d reported as %s, the stream carries %s", i, got.Codec, want), st
		}
		if int64(got.ClockRate) != rate {
			return fmt.Sprintf("track %d reported with clock rate %d, expected %d", i, got.ClockRate, rate), st
		}
		// (the statement does not cover rendition attributes; checked where the client carries them:
		// it does not for MPEG-TS renditions)
		if e.bp != lead && b.Def.Container == "fmp4" {
			if got.Name != e.bp.Def.Name || got.Language != e.bp.Def.Language || got.IsDefault != e.bp.Def.Default {
				return fmt.Sprintf("rendition track %d reported as name=%q lang=%q default=%v, advertised name=%q lang=%q default=%v", i, got.Name, got.Language, got.IsDefault, e.bp.Def.Name, e.bp.Def.Language, e.bp.Def.Default), st
			}
		}
		// expected units
		first := firstSeg(e.bp)
		originR := origin
		if def.Container == "fmp4" {
			originR = mulDivTrunc(origin, rate, leadRate)
		}
		var want2 []cli.ExpUnit
		var wdts, wpts []int64
		var maybe []bool // within one tick of zero: may be dropped or delivered
		for _, u := range e.bp.Units[e.ti] {
			if u.Seg < first {
				continue
			}
			nd, np := u.DTS-originR, u.PTS-originR
			if np < -1 {
				continue // precedes the origin: must be dropped
			}
			want2 = append(want2, u)
			wdts = append(wdts, nd)
			wpts = append(wpts, np)
			maybe = append(maybe, np <= 1 && np >= -1 && np != 0 || np == -1)
		}
		got2 := r.Units[i]
		gi := 0
		for k, w := range want2 {
			if gi >= len(got2) {
				if maybe[k] {
					continue
				}
				return fmt.Sprintf("track %d (%s): unit %d of %d (segment %d) was not delivered; %d delivered", i, td.Codec, k, len(want2), w.Seg, len(got2)), st
			}
			g := got2[gi]
			if !equalData(g.Data, w.Data) {
				if maybe[k] {
					continue
				}
				return fmt.Sprintf("track %d (%s): delivery %d is not unit %d of the stream (segment %d): got %d parts %x.., want %d parts %x..", i, td.Codec, gi, k, w.Seg, len(g.Data), head(g.Data), len(w.Data), head(w.Data)), st
			}
			gi++
			if g.PTS < 0 {
				return fmt.Sprintf("track %d: unit delivered with negative PTS %d", i, g.PTS), st
			}
			if (!g.NoDTS && abs64(g.DTS-wdts[k]) > 1) || abs64(g.PTS-wpts[k]) > 1 {
				return fmt.Sprintf("track %d (%s, rate %d): unit %d delivered with dts/pts %d/%d, expected %d/%d (container %d/%d, origin %d at rate %d)", i, td.Codec, rate, k, g.DTS, g.PTS, wdts[k], wpts[k], w.DTS, w.PTS, origin, leadRate), st
			}
			// absolute time
			anchor := -1
			for j := w.Seg; j >= s0; j-- {
				if j < len(lead.SegDate) && lead.SegDate[j] != nil {
					anchor = j
					break
				}
			}
			// availability: the statement only constrains the value when available. It must be
			// available for units of the leading track from the first dated segment on (the
			// anchor is set by that very track), and never before any date-time was seen.
			if e.bp == lead && e.ti == lead.LeadTrack && anchor >= 0 && !g.AbsOK {
				return fmt.Sprintf("leading track unit %d (segment %d): AbsoluteTime not available although segment %d carries a date-time", k, w.Seg, anchor), st
			}
			if e.bp == lead && anchor < 0 && g.AbsOK {
				return fmt.Sprintf("track %d unit %d (segment %d): AbsoluteTime available although no segment up to it carries a date-time", i, k, w.Seg), st
			}
			if g.AbsOK && skewed && core.Open("F21b") && !c10NoExclusions && !(e.bp == lead && e.ti == lead.LeadTrack) {
				// open finding F21: with dates that are not contiguous with media time only the
				// leading track is anchored on the unit's own segment
				st.excluded++
				st.units++
				continue
			}
			if g.AbsOK {
				// any dated leading segment is a valid anchor (they are mutually consistent to 1 ms)
				if anchor < 0 {
					for j := s0; j < len(lead.SegDate); j++ {
						if lead.SegDate[j] != nil {
							anchor = j
							break
						}
					}
				}
				if anchor < 0 {
					return fmt.Sprintf("track %d unit %d: AbsoluteTime available although no segment carries a date-time", i, k), st
				}
				aN := lead.LeadFirstDTS[anchor] - origin
				if def.Container == "fmp4" {
					aN = mulDivTrunc(aN, rate, leadRate)
				}
				wantAbs := lead.SegDate[anchor].Add(time.Duration(wdts[k]-aN) * time.Second / time.Duration(rate))
				d := g.Abs.Sub(wantAbs)
				if d < -2500*time.Microsecond || d > 2500*time.Microsecond {
					return fmt.Sprintf("track %d unit %d (segment %d): AbsoluteTime %s, expected %s (anchor segment %d)", i, k, w.Seg, g.Abs.Format(time.RFC3339Nano), wantAbs.Format(time.RFC3339Nano), anchor), st
				}
			}
			st.units++
		}
		if gi < len(got2) {
			return fmt.Sprintf("track %d (%s): %d units delivered beyond the %d of the stream (first extra: %x..)", i, td.Codec, len(got2)-gi, len(want2), head(got2[gi].Data)), st
		}
	}
	st.rates = len(rates)
	if def.Container == "mpegts" {
		lastTicks := int64(0)
		for _, u := range lead.Units[lead.LeadTrack] {
			if u.DTS > lastTicks {
				lastTicks = u.DTS
			}
		}
		st.wrap = def.BaseTicks < 1<<33 && lastTicks >= 1<<33
	} else {
		st.bigBase = def.BaseSec*leadRate >= 1<<32
	}
	return "", st
}

func equalData(a, b [][]byte) bool {
	if len(a) != len(b) {
		return false
	}
	for i := range a {
		if !bytes.Equal(a[i], b[i]) {
			return false
		}
	}
	return true
}

func head(d [][]byte) []byte {
	if len(d) == 0 {
		return nil
	}
	x := d[len(d)-1]
	if len(x) > 12 {
		x = x[:12]
	}
	return x
}

func abs64(v int64) int64 {
	if v < 0 {
		return -v
	}
	return v
}

// serveStatic registers a stream whose playlists never change (ENDLIST): the client downloads
// from its start position to the end and finishes with ErrClientEOS.
func serveStatic(b *cli.Built) *cli.Server {
	s := cli.NewServer()
	for p, f := range b.Files {
		s.AddFile(p, f)
	}
	all := append([]*cli.BuiltPlaylist{b.Lead}, b.Renditions...)
	for _, bp := range all {
		s.AddPlaylist(bp.Path, cli.MediaPlaylistText(bp, b.Def.Container, 0, 0, len(bp.SegURIs), b.Def.VOD, true, nil))
	}
	s.AddPlaylist("index.m3u8", cli.MultivariantText(b))
	return s
}

func execC10(sc c10Scenario) core.Outcome {
	var o core.Outcome
	b, err := cli.Build(sc.Stream)
	if err != nil {
		o.Skip = true
		return o
	}
	srv := serveStatic(b)
	uri := "http://stream.test/lead.m3u8"
	if sc.Entry == "multi" {
		uri = "http://stream.test/index.m3u8"
	}
	r := cli.RunClient(cli.RunOpts{URI: uri, Server: srv, CloseAtRequest: -1, MaxWait: 30 * time.Second})
	o.Labels = append(o.Labels, "container:"+sc.Stream.Container, "entry:"+sc.Entry)
	if sc.Stream.VOD {
		o.Labels = append(o.Labels, "vod")
	} else {
		o.Labels = append(o.Labels, "live-start")
	}
	if sc.Stream.Lead.ByteRange {
		o.Labels = append(o.Labels, "byte-range")
		if sc.Stream.Lead.RangeDrop != 0 {
			o.Labels = append(o.Labels, "byte-range-without-offsets")
		}
	}
	if sc.Stream.MuxedRendition && sc.Entry == "multi" {
		o.Labels = append(o.Labels, "rendition-without-uri")
	}
	for _, tr := range sc.Stream.Lead.Tracks {
		if !cli.SupportedByClient(sc.Stream.Container, tr.Codec) {
			o.Labels = append(o.Labels, "unsupported-track:"+tr.Codec)
		}
	}
	if r.StartErr != nil {
		return fail(o, "Start failed: %v", r.StartErr)
	}
	if r.ChangedAfterDelivery > 0 {
		return fail(o, "%d delivered units changed after their callback returned (first: %s): the slices handed to the application are reused", r.ChangedAfterDelivery, r.ChangedExample)
	}
	if !r.WaitReturned {
		return fail(o, "the client did not finish a %d-segment stream with ENDLIST: Wait() yielded nothing within 30 s (%v)", len(b.Lead.SegURIs), r.WaitErr)
	}
	if !errors.Is(r.WaitErr, gohlslib.ErrClientEOS) {
		return fail(o, "the client ended with %q instead of ErrClientEOS; requests: %v", r.WaitErr, reqURLs(r.Requests))
	}
	firstSeg := func(bp *cli.BuiltPlaylist) int {
		if sc.Stream.VOD {
			return 0
		}
		return len(bp.SegURIs) - 3
	}
	v, st := checkDelivery(b, sc.Entry, r, firstSeg)
	if v != "" {
		return fail(o, "%s", v)
	}
	o.NonTrivial = st.rates >= 2 || st.bigBase || st.wrap
	o.Excluded = st.excluded
	for _, sg := range sc.Stream.Lead.Segs {
		if sg.DateSkewMs != 0 {
			o.Labels = append(o.Labels, "dates-not-contiguous")
			break
		}
	}
	if st.rates >= 2 {
		o.Labels = append(o.Labels, "multi-rate")
	}
	if st.bigBase {
		o.Labels = append(o.Labels, "base>=2^32")
	}
	if st.wrap {
		o.Labels = append(o.Labels, "33-bit-wrap")
	}
	if len(r.Leaked) > 0 {
		o.Labels = append(o.Labels, "other-property-violated:C12")
	}
	return o
}

func reqURLs(rs []cli.ReqLog) []string {
	var out []string
	for _, r := range rs {
		u := r.URL
		if r.Range != "" {
			u += " [" + r.Range + "]"
		}
		out = append(out, u)
	}
	return out
}

var propC10 = core.Prop[c10Scenario]{
	ID: "C10", CrashLog: true,
	Rule: "synthetic streams built with mediacommon (fMP4 / MPEG-TS, single playlist or multivariant with 0-3 audio renditions of different timescales, 1 video + 0-2 audio in the leading playlist, 3-6 segments x 1-3 fragments x 1-3 samples, base times up to 2^23 s and anywhere on the 33-bit circle incl. wrap, B-frame style PTS offsets, byte-range or whole-file addressing, date-times on all/some/no segments, VOD or live start, extra unsupported MPEG-TS track) served by an in-process transport; " +
		"oracle: reported tracks, every unit of every downloaded segment delivered byte-identical and in order, dts/pts = container - origin (+-1 tick), nothing negative, AbsoluteTime = date-time anchor + offset, ErrClientEOS; non-trivial = tracks with different clock rates, base >= 2^32, or a 33-bit wrap inside the stream",
	Draw: drawC10,
	Exec: execC10,
}

func TestC10(t *testing.T) { core.Run(t, propC10) }

// TestKnownF21b reproduces open finding F21b (the C10 face of F21): a stream whose segment dates
// are not contiguous with media time; units of a track other than the leading one get an
// AbsoluteTime from another segment's anchor.
func TestKnownF21b(t *testing.T) {
	b, err := os.ReadFile("../../known_scenarios/F21b.json")
	if err != nil {
		t.Fatal(err)
	}
	var f struct {
		Scenario c10Scenario `json:"scenario"`
	}
	if err := json.Unmarshal(b, &f); err != nil {
		t.Fatal(err)
	}
	c10NoExclusions = true
	defer func() { c10NoExclusions = false }()
	o := execC10(f.Scenario)
	if strings.Contains(o.Violation, "AbsoluteTime") {
		fmt.Println("STILL-REPRODUCES F21b:", o.Violation)
		return
	}
	fmt.Printf("F21b does not reproduce: %q\n", o.Violation)
}
