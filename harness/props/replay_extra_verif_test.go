//go:build verif

package props

import (
	"testing"

	"verifharness/core"
)

var extraReplayers = map[string]func(t *testing.T, path string){
	"C20/queue": func(t *testing.T, p string) { core.Replay(t, propC20, p) },
}
