"""Per-property step tables for bin/check.

step kinds:
  replays  run every regress/<id>/*.json through TestReplay (scenarios that must pass)
  plain    a plain Go test (hand-written regressions, bounded exhaustive enumerations)
  rapid    a rapid property; checks/shards per tier; every shard is its own process
  fuzz     native `go test -fuzz` campaign (thorough tier only)
"""

def rapid(name, test, quick, thorough, qshards=2, tshards=12, race=False, **kw):
    d = {"kind": "rapid", "name": name, "test": test, "race": race,
         "checks": {"quick": quick, "thorough": thorough},
         "shards": {"quick": qshards, "thorough": tshards}}
    d.update(kw)
    return d

def plain(name, test, race=False, **kw):
    d = {"kind": "plain", "name": name, "test": test, "race": race}
    d.update(kw)
    return d

def fuzz(name, target, seconds, **kw):
    d = {"kind": "fuzz", "name": name, "fuzz": target, "seconds": {"quick": 0, "thorough": seconds}, "tiers": ("thorough",)}
    d.update(kw)
    return d

REPLAYS = {"kind": "replays", "name": "regress"}

CHECKS = {
    "C17": {
        "steps": [
            REPLAYS,
            rapid("storage", "TestC17", 20000, 2000000, qshards=2, tshards=14),
        ],
        "assumptions": [
            "one Writer() per part, parts written in allocation order (what the muxer does)",
            "seek targets within [0,len], or past the end only when followed by a non-empty write",
            "readers after Remove are only required to work when they were opened before Remove",
        ],
    },
}
