"""Per-property step tables for bin/check.

step kinds:
  replays  run every regress/<id>/*.json through TestReplay (scenarios that must pass)
  plain    a plain Go test (hand-written regressions, bounded exhaustive enumerations)
  rapid    a rapid property; checks/shards per tier; every shard is its own process
  fuzz     native `go test -fuzz` campaign (thorough tier only)
"""

def rapid(name, test, quick, thorough, qshards=2, tshards=12, race=False, **kw):
    d = {"kind": "rapid", "name": name, "test": test, "race": race,
         "checks": {"quick": quick, "thorough": thorough},
         "shards": {"quick": qshards, "thorough": tshards}}
    d.update(kw)
    return d

def plain(name, test, race=False, **kw):
    d = {"kind": "plain", "name": name, "test": test, "race": race}
    d.update(kw)
    return d

def fuzz(name, target, seconds, **kw):
    d = {"kind": "fuzz", "name": name, "fuzz": target, "seconds": {"quick": 0, "thorough": seconds}, "tiers": ("thorough",)}
    d.update(kw)
    return d

REPLAYS = {"kind": "replays", "name": "regress"}

CHECKS = {
    "C14": {
        "steps": [
            REPLAYS,
            rapid("roundtrip", "TestC14", 80000, 1500000, qshards=4, tshards=14),
        ],
        "assumptions": [
            "values inside the documented field requirements: non-empty URIs, NAME/GROUP-ID/CODECS present, durations >= 10us, TargetDuration >= 1, integers < 2^31, whole-minute zone offsets",
            "once an EXT-X-KEY is in force every later segment carries a key (HLS semantics); METHOD=NONE carries no other attribute",
            "quoted strings contain no double quote / CR / LF; URI lines do not start with '#' and have no surrounding whitespace; titles are trimmed",
        ],
    },
    "C15": {
        "steps": [
            REPLAYS,
            rapid("decoder", "TestC15Decoder", 200000, 5000000, qshards=4, tshards=14),
            rapid("grammar", "TestC15Grammar", 80000, 1500000, qshards=4, tshards=14),
            fuzz("fuzz-media", "FuzzC15Media", 150),
            fuzz("fuzz-multi", "FuzzC15Multi", 100),
            fuzz("fuzz-any", "FuzzC15Any", 100),
        ],
        "assumptions": [
            "the strict grammar is harness/m3u8x.Strict (written from RFC 8216 / draft-pantos-hls-rfc8216bis, shares no code with pkg/playlist)",
            "grammar half uses the value domain of C14; values with parts get an EXT-X-PART-INF (cross-field requirement of a valid value)",
        ],
    },
    "C17": {
        "steps": [
            REPLAYS,
            rapid("storage", "TestC17", 100000, 3000000, qshards=4, tshards=14),
        ],
        "assumptions": [
            "one Writer() per part, parts written in allocation order (what the muxer does)",
            "seek targets within [0,len], or past the end only when followed by a non-empty write",
            "readers after Remove are only required to work when they were opened before Remove",
        ],
    },
}
