"""Per-property step tables for bin/check.

step kinds:
  replays  run every regress/<id>/*.json through TestReplay (scenarios that must pass)
  plain    a plain Go test (hand-written regressions, bounded exhaustive enumerations)
  rapid    a rapid property; checks/shards per tier; every shard is its own process
  fuzz     native `go test -fuzz` campaign (thorough tier only)
"""

def rapid(name, test, quick, thorough, qshards=2, tshards=12, race=False, **kw):
    d = {"kind": "rapid", "name": name, "test": test, "race": race,
         "checks": {"quick": quick, "thorough": thorough},
         "shards": {"quick": qshards, "thorough": tshards}}
    d.update(kw)
    return d

def plain(name, test, race=False, **kw):
    d = {"kind": "plain", "name": name, "test": test, "race": race}
    d.update(kw)
    return d

def fuzz(name, target, seconds, **kw):
    d = {"kind": "fuzz", "name": name, "fuzz": target, "seconds": {"quick": 0, "thorough": seconds}, "tiers": ("thorough",)}
    d.update(kw)
    return d

REPLAYS = {"kind": "replays", "name": "regress"}

CHECKS = {
    "C14": {
        "steps": [
            REPLAYS,
            rapid("roundtrip", "TestC14", 80000, 1500000, qshards=4, tshards=14),
            plain("masks", "TestC14Masks"),
        ],
        "assumptions": [
            "values inside the documented field requirements: non-empty URIs, NAME/GROUP-ID/CODECS present, durations >= 10us, TargetDuration >= 1, integers < 2^31, whole-minute zone offsets",
            "once an EXT-X-KEY is in force every later segment carries a key (HLS semantics); METHOD=NONE carries no other attribute",
            "quoted strings contain no double quote / CR / LF; URI lines do not start with '#' and have no surrounding whitespace; titles are trimmed",
        ],
    },
    "C15": {
        "steps": [
            REPLAYS,
            rapid("decoder", "TestC15Decoder", 200000, 5000000, qshards=4, tshards=14),
            rapid("grammar", "TestC15Grammar", 80000, 1500000, qshards=4, tshards=14),
            rapid("muxer", "TestC15Muxer", 400, 12000, qshards=4, tshards=14, shrinktime="30s"),
            rapid("muxer-ll", "TestC15LL", 200, 6000, qshards=4, tshards=14, shrinktime="30s"),
            fuzz("fuzz-media", "FuzzC15Media", 150),
            fuzz("fuzz-multi", "FuzzC15Multi", 100),
            fuzz("fuzz-any", "FuzzC15Any", 100),
        ],
        "assumptions": [
            "the strict grammar is harness/m3u8x.Strict (written from RFC 8216 / draft-pantos-hls-rfc8216bis, shares no code with pkg/playlist)",
            "grammar half uses the value domain of C14; values with parts get an EXT-X-PART-INF (cross-field requirement of a valid value)",
        ],
    },
    "C17": {
        "steps": [
            REPLAYS,
            rapid("storage", "TestC17", 100000, 3000000, qshards=4, tshards=14),
        ],
        "assumptions": [
            "one Writer() per part, parts written in allocation order (what the muxer does)",
            "seek targets within [0,len], or past the end only when followed by a non-empty write",
            "readers after Remove are only required to work when they were opened before Remove",
        ],
    },
}

E1_ASSUME = [
    "Track.ClockRate equals the container timescale (90000 video, sample rate AAC, 48000 Opus), as in every test and example of the repository",
    "per-track non-decreasing DTS; the first random-access unit of H264/H265 carries its parameter sets in band; NAL units free of start-code emulation",
    "H264 streams use pic_order_cnt_type 2 (dts = pts); pts != dts is exercised through H265 with VUI timing (mediacommon's DTS extractor is the reference for expected DTS)",
    "scenarios with a boundary decision within 1 ns of SegmentMinDuration are skipped and counted (sub-nanosecond rounding is not fixed by the property)",
    "media decoded with mediacommon (fMP4) and go-astits (MPEG-TS); playlists read with harness/m3u8x",
]

def e1(test, quick, thorough, **kw):
    return {"steps": [REPLAYS, rapid("e1", test, quick, thorough, qshards=4, tshards=14, shrinktime="30s", timeout={"quick": 900, "thorough": 3000}, **kw)], "assumptions": E1_ASSUME}

CHECKS.update({
    "C01": e1("TestC01", 1200, 40000),
    "C02": e1("TestC02", 1200, 40000),
    "C03": e1("TestC03", 1000, 30000),
    "C04": e1("TestC04", 240, 6000),
    "C05": e1("TestC05", 400, 10000),
    "C06": {"steps": [REPLAYS, rapid("e2", "TestC06", 500, 12000, qshards=4, tshards=14, shrinktime="40s", timeout={"quick": 900, "thorough": 3000})],
            "assumptions": E1_ASSUME + ["one access unit per write, so that every write causes at most one rotation and the state after each write is observable",
                                        "a request counts as blocked when its goroutine is parked in sync.Cond.Wait/select (goroutine state, not a timeout); a lock wait counts as blocked only after 3 s",
                                        "_HLS_msn equal to EXT-X-MEDIA-SEQUENCE (oldest listed entry): both 400 and a playlist are accepted (boundary pinned by TestMuxerExpiredSegment)"]},
    "C07": {"steps": [REPLAYS, rapid("close", "TestC07", 6000, 120000, qshards=4, tshards=14, shrinktime="40s", timeout={"quick": 900, "thorough": 3000})],
            "assumptions": E1_ASSUME + ["'promptly' is decided by goroutine state: a request is finished, or parked in a synchronisation primitive (a lock wait counts as blocked after 3 s)",
                                        "the interleaving of Close with the waiters is controlled at the yield point between Close's broadcast and its per-stream cleanup (hook), other interleavings are the scheduler's"]},
    "C20": {"steps": [REPLAYS,
                      plain("exhaustive", "TestC20Exhaustive", timeout={"quick": 600, "thorough": 2400}),
                      rapid("queue", "TestC20", 6000, 300000, qshards=4, tshards=14),
                      rapid("e2e", "TestC20E2E", 160, 4000, qshards=8, tshards=14),
                      plain("race", "TestC20Race", race=True, race_reports=True, timeout={"quick": 600, "thorough": 2400})],
            "assumptions": ["one producer and one consumer, as in the client (one downloader, one processor per stream)",
                            "interleavings are enumerated at the instrumented yield points (after each unlock, before the following wait) and at operation boundaries; inside critical sections operations are atomic",
                            "blocked = goroutine parked in select (goroutine state), not a timeout"]},
    "C10": {"steps": [REPLAYS, rapid("client", "TestC10", 640, 20000, qshards=8, tshards=14, shrinktime="60s", timeout={"quick": 900, "thorough": 3000})],
            "assumptions": ["streams are built by the harness with mediacommon's fMP4 / MPEG-TS writers and served by an in-process http.RoundTripper (no sockets)",
                            "delivery is paced in real time by the client, so streams carry at most a few hundred ms of media",
                            "AV1 / VP9 / audio callbacks carry no DTS: only PTS is compared there",
                            "AbsoluteTime: the value is checked whenever it is available; availability is required only for the leading track from the first dated segment on",
                            "MPEG-TS segments are muxed in DTS order; PROGRAM-DATE-TIME values are consistent with media time to 1 ms"]},
    "C11": {"steps": [REPLAYS, rapid("select", "TestC11", 2400, 60000, qshards=8, tshards=14, shrinktime="60s", timeout={"quick": 900, "thorough": 3000})],
            "assumptions": ["playlist histories are served by an in-process transport: the k-th request of a playlist gets the k-th snapshot (the last one repeats)",
                            "segments carry one 10 ms sample each; the expected request log is the ClientSelectModel of DESIGN Appendix C written from the statement",
                            "several rendition streams: per-stream sub-logs are compared (the global interleaving is the scheduler's); when one stream stops with an error the others may be cut short",
                            "a byte range without offset is generated either on a resource of its own (starts at 0) or after an explicit sub-range of the same resource (continues after it, RFC 8216 4.3.2.2)"]},
    "C12": {"steps": [REPLAYS, rapid("term", "TestC12", 1200, 30000, qshards=8, tshards=14, shrinktime="45s", timeout={"quick": 900, "thorough": 3000},
                                      # verdicts that are facts about one execution, not timing judgements: they count even
                                      # when the replay (another OS schedule) does not show them again
                                      hard_facts=[r"user callbacks were invoked after Wait\(\) yielded", r"a second value was received from Wait"])],
            "assumptions": ["a goroutine counts as leaked when a frame of gohlslib's client is still on its stack 3 s after Wait() yielded",
                            "a body that stalls until cancelled can only be ended by Close: the harness closes the client after 1.5 s and requires termination",
                            "when a Close races with the natural end of the stream either ErrClientEOS or the termination error is accepted"]},
    "C13": {"steps": [REPLAYS, rapid("robust", "TestC13", 800, 30000, qshards=8, tshards=14, shrinktime="60s", timeout={"quick": 900, "thorough": 3000}),
                      fuzz("fuzz-playlist", "FuzzC13Playlist", 240)],
            "assumptions": ["a panic in a client goroutine kills the test process: every scenario is logged before execution and the driver replays the last one to attribute the crash",
                            "busy loop = more than 400 requests or more than 80% CPU of the process during a 1.5 s run that did not end by itself",
                            "mutations are applied to streams built by the harness; truncation points include every box boundary of the first three nesting levels"]},
    "C08": {"steps": [REPLAYS, rapid("stress", "TestC08", 240, 4800, qshards=8, tshards=14, race=True, race_reports=True, schedule_dependent=True, replay_tries=3, shrinktime="30s", timeout={"quick": 900, "thorough": 3000})],
            "replay_race": True,
            "assumptions": E1_ASSUME + ["schedules are the operating system's: VERIF_SEED fixes the plans, not the interleavings; the race detector only reports access pairs that were executed",
                                        "a race report is a violation by itself; the report text is saved as the replay artefact next to the plan that produced it",
                                        "single-response invariants are those of C03-C05 that need no reference model"]},
    "C09": {"steps": [REPLAYS, rapid("interop", "TestC09", 24, 700, qshards=8, tshards=14, shrinktime="25s", timeout={"quick": 900, "thorough": 3000})],
            "assumptions": E1_ASSUME + ["writes are paced in real time and the client paces delivery in real time: a run lasts 4-8 s; 6 runs execute concurrently in every case",
                                        "SegmentMinDuration >= 0.5 s (shorter segments make the muxer announce TARGETDURATION 0, which the library's own decoder rejects)",
                                        "NTP passed to Write is exactly linear in media time, so that every PROGRAM-DATE-TIME anchor gives the same AbsoluteTime",
                                        "how far a client gets depends on the machine; the oracle is prefix-closed (every delivered unit is checked, nothing is required to be delivered beyond the tracks)"]},
    "C16": e1("TestC16", 1000, 30000),
    "C18": e1("TestC18", 400, 8000),
    "C19": e1("TestC19", 800, 30000),
})
